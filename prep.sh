#!/bin/bash
# prep.sh <scratch-dir> : copy /repo's working tree, instrument it, build the
# harness test binary at <scratch-dir>/harness.test. Exit 2 on any failure.
set -u
S="$1"
export GOFLAGS=-mod=mod GOPROXY=off GOSUMDB=off GOTOOLCHAIN=local GOWORK=off
V=/verif
REPO=${VERIF_REPO:-/repo}
rm -rf "$S" && mkdir -p "$S" || exit 2
rsync -a --exclude .git --exclude '*_test.go' "$REPO"/ "$S/repo/" || exit 2
mkdir -p "$S/repo/simrt" && cp $V/simrt/*.go "$S/repo/simrt/" || exit 2
sed -i 's/^go 1\.[0-9.]*$/go 1.21/' "$S/repo/go.mod"
if [ ! -x $V/bin/simify ]; then (cd $V/simify && go build -o $V/bin/simify .) || exit 2; fi
SIMIFY_FLAGS=${SIMIFY_FLAGS:-}
(cd "$S/repo" && $V/bin/simify -dir "$S/repo" $SIMIFY_FLAGS) > "$S/simify.log" 2>&1 || { cat "$S/simify.log"; echo "prep: simify failed" >&2; exit 2; }
mkdir -p "$S/h" && cp $V/harness/*.go $V/harness/go.mod "$S/h/" && cp -r $V/harness/schemas "$S/h/" || exit 2
# generated models: the repository's own modelgen on the committed schema files
for v in 0 1 2; do
  mkdir -p "$S/h/ks$v"
  (cd "$REPO" && go run ./cmd/modelgen -extended -p ks$v -o "$S/h/ks$v" $V/harness/schemas/ks$v.ovsschema) > "$S/modelgen.log" 2>&1 || { cat "$S/modelgen.log"; echo "prep: modelgen failed" >&2; exit 2; }
done
cp "$REPO/go.sum" "$S/h/go.sum"
[ -f $V/harness/go.sum ] && cat $V/harness/go.sum >> "$S/h/go.sum"
(cd "$S/h" && go1.26.8 test -c -o "$S/harness.test" . ) > "$S/build.log" 2>&1 || { tail -50 "$S/build.log"; echo "prep: harness build failed" >&2; exit 2; }
tail -1 "$S/simify.log"
