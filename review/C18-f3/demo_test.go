// C18 finding 3: Connect() of a leader-only client ignores its context while it
// sets up the leadership watch, and nothing can interrupt it.
//
// Connect(ctx) -> watchForLeaderChange() issues the monitor_cond request on the
// _Server database with context.Background() instead of the caller's context
// (client.go: `return o.monitor(context.Background(), newMonitorCookie(serverDB), false, m)`),
// while holding rpcMutex (read) and the monitorsMutex of _Server. If the server
// stops answering at that point (hung ovsdb-server, black-holed connection)
// Connect never returns, whatever deadline the caller gave it - and because
// Disconnect()/Close() need rpcMutex for writing they block forever as well, so
// the stuck Connect cannot even be aborted.
//
// Copy this file to   client/c18_f3_demo_test.go   (package client) and run
//
//	export GOFLAGS=-mod=mod GOPROXY=off GOSUMDB=off GOTOOLCHAIN=local
//	go test ./client/ -run TestC18F3 -count=1
//
// Self-contained: own schema/model and a hand-written OVSDB server (JSON-RPC
// over a unix socket) which answers everything the client asks while
// connecting (list_dbs, get_schema for both databases, the leader check on
// _Server.Database) and then goes silent: the "connection fault at a particular
// point" is that the monitor_cond request on _Server is never answered. Public
// API only, no internals.
package client

import (
	"context"
	"encoding/json"
	"net"
	"path/filepath"
	"sync"
	"testing"
	"time"

	"github.com/ovn-org/libovsdb/model"
	"github.com/ovn-org/libovsdb/ovsdb/serverdb"
)

const c18f3Schema = `{
  "name": "C18DB",
  "version": "1.0.0",
  "tables": {
    "T1": {"columns": {"name": {"type": "string"}}, "isRoot": true}
  }
}`

type c18f3T1 struct {
	UUID string `ovsdb:"_uuid"`
	Name string `ovsdb:"name"`
}

type c18f3Msg struct {
	Method string            `json:"method"`
	Params []json.RawMessage `json:"params"`
	ID     json.RawMessage   `json:"id"`
}

func c18f3Serve(conn net.Conn, stalled chan<- string) {
	var mu sync.Mutex
	enc := json.NewEncoder(conn)
	reply := func(id json.RawMessage, result interface{}) {
		mu.Lock()
		defer mu.Unlock()
		_ = enc.Encode(map[string]interface{}{"id": id, "result": result, "error": nil})
	}
	dec := json.NewDecoder(conn)
	for {
		var m c18f3Msg
		if err := dec.Decode(&m); err != nil {
			return
		}
		switch m.Method {
		case "list_dbs":
			reply(m.ID, []string{"C18DB", "_Server"})
		case "get_schema":
			var name string
			_ = json.Unmarshal(m.Params[0], &name)
			if name == "_Server" {
				reply(m.ID, serverdb.Schema())
			} else {
				reply(m.ID, json.RawMessage(c18f3Schema))
			}
		case "transact":
			// the leader check: select on _Server.Database. A standalone
			// database is its own leader.
			reply(m.ID, []interface{}{map[string]interface{}{"rows": []interface{}{
				map[string]interface{}{
					"name": "C18DB", "model": "standalone", "leader": true,
					"sid": []interface{}{"set", []interface{}{}},
				},
			}}})
		case "echo":
			reply(m.ID, m.Params)
		case "monitor_cond", "monitor_cond_since", "monitor":
			// the server hangs here: the request is read, no answer ever comes
			select {
			case stalled <- m.Method + " " + string(m.Params[0]):
			default:
			}
		}
	}
}

func TestC18F3LeaderOnlyConnectIgnoresContext(t *testing.T) {
	sock := filepath.Join(t.TempDir(), "c18f3.sock")
	ln, err := net.Listen("unix", sock)
	if err != nil {
		t.Fatal(err)
	}
	defer ln.Close()
	stalled := make(chan string, 1)
	go func() {
		for {
			conn, err := ln.Accept()
			if err != nil {
				return
			}
			go c18f3Serve(conn, stalled)
		}
	}()

	dbModel, err := model.NewClientDBModel("C18DB", map[string]model.Model{"T1": &c18f3T1{}})
	if err != nil {
		t.Fatal(err)
	}
	c, err := NewOVSDBClient(dbModel, WithEndpoint("unix:"+sock), WithLeaderOnly(true))
	if err != nil {
		t.Fatal(err)
	}

	const budget = 500 * time.Millisecond
	ctx, cancel := context.WithTimeout(context.Background(), budget)
	defer cancel()
	start := time.Now()
	connectDone := make(chan error, 1)
	go func() { connectDone <- c.Connect(ctx) }()

	select {
	case what := <-stalled:
		t.Logf("server went silent on request: %s", what)
	case <-time.After(5 * time.Second):
		t.Fatalf("the client never sent the monitor request on _Server")
	}

	select {
	case err := <-connectDone:
		t.Logf("Connect returned after %v: %v", time.Since(start), err)
		if err == nil {
			t.Fatalf("Connect reported success although the leadership watch was never set up")
		}
		return // correct behaviour: an error once the context expired
	case <-time.After(budget + 3*time.Second):
		t.Errorf("Connect(ctx with %v timeout) has still not returned after %v", budget, time.Since(start))
	}

	// ... and it cannot be aborted either: Close() needs rpcMutex for writing,
	// the stuck Connect holds it for reading
	closeDone := make(chan struct{})
	go func() { c.Close(); close(closeDone) }()
	select {
	case <-closeDone:
		t.Logf("Close returned")
	case <-time.After(2 * time.Second):
		t.Errorf("Close() is blocked behind the stuck Connect (still blocked after 2s)")
	}
	select {
	case err := <-connectDone:
		t.Logf("Connect finally returned after %v: %v", time.Since(start), err)
	case <-time.After(time.Second):
		t.Errorf("Connect is still blocked %v after it was called", time.Since(start))
	}
}
