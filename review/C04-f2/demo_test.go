// Finding C04/2 - a row whose scalar (min 1, max 1) reference column is left
// at its default value (the all-zeros UUID) is accepted: a strong reference to
// a row that does not exist is committed; a weak one is neither removed nor
// counted against the minimum of the column.
//
// How to run: copy this file into a NEW directory of the worktree, e.g.
//
//	mkdir /tmp/bh-C04/c04demo2 && cp demo_test.go /tmp/bh-C04/c04demo2/
//	cd /tmp/bh-C04 && export GOFLAGS=-mod=mod GOPROXY=off GOSUMDB=off GOTOOLCHAIN=local
//	go test ./c04demo2/ -run TestC04 -v
//
// The operations are given as the JSON a client would send; they are executed
// the way server.(*OvsdbServer).Transact does: database.NewTransaction ->
// Transact -> Commit if no operation failed. Nothing is forced, no internals.
package c04demo2

import (
	"encoding/json"
	"testing"

	"github.com/google/uuid"
	"github.com/ovn-org/libovsdb/database"
	"github.com/ovn-org/libovsdb/database/inmemory"
	"github.com/ovn-org/libovsdb/model"
	"github.com/ovn-org/libovsdb/ovsdb"
)

// Holder.ref  : exactly one STRONG reference to Target  ({"key":{uuid,refTable}} = min 1, max 1)
// WHolder.ref : exactly one WEAK reference to Target
const schema = `{"name":"RI","version":"1.0.0","tables":{
 "Target":{"isRoot":true,"columns":{"name":{"type":"string"}}},
 "Holder":{"isRoot":true,"columns":{
   "name":{"type":"string"},
   "ref":{"type":{"key":{"type":"uuid","refTable":"Target","refType":"strong"}}}}},
 "WHolder":{"isRoot":true,"columns":{
   "name":{"type":"string"},
   "ref":{"type":{"key":{"type":"uuid","refTable":"Target","refType":"weak"}}}}}
}}`

type Target struct {
	UUID string `ovsdb:"_uuid"`
	Name string `ovsdb:"name"`
}
type Holder struct {
	UUID string `ovsdb:"_uuid"`
	Name string `ovsdb:"name"`
	Ref  string `ovsdb:"ref"`
}
type WHolder struct {
	UUID string `ovsdb:"_uuid"`
	Name string `ovsdb:"name"`
	Ref  string `ovsdb:"ref"`
}

const (
	zero    = "00000000-0000-0000-0000-000000000000"
	missing = "99999999-9999-9999-9999-999999999999"
)

func newDB(t *testing.T) database.Database {
	var s ovsdb.DatabaseSchema
	if err := json.Unmarshal([]byte(schema), &s); err != nil {
		t.Fatal(err)
	}
	cm, err := model.NewClientDBModel("RI", map[string]model.Model{"Target": &Target{}, "Holder": &Holder{}, "WHolder": &WHolder{}})
	if err != nil {
		t.Fatal(err)
	}
	db := inmemory.NewDatabase(map[string]model.ClientDBModel{"RI": cm})
	if err := db.CreateDatabase("RI", s); err != nil {
		t.Fatal(err)
	}
	return db
}

// transact = what server.Transact does. Returns "" if committed, else the error
func transact(t *testing.T, db database.Database, opsJSON string) string {
	var ops []ovsdb.Operation
	if err := json.Unmarshal([]byte(opsJSON), &ops); err != nil {
		t.Fatal(err)
	}
	tx := db.NewTransaction("RI")
	res, upd := tx.Transact(ops...)
	for _, r := range res {
		if r != nil && r.Error != "" {
			return r.Error + ": " + r.Details
		}
	}
	if err := db.Commit("RI", uuid.New(), upd); err != nil {
		t.Fatalf("commit: %v", err)
	}
	return ""
}

func TestC04ScalarStrongReferenceLeftAtDefault(t *testing.T) {
	db := newDB(t)

	// control: a strong reference to a row that does not exist is refused ...
	e := transact(t, db, `[{"op":"insert","table":"Holder","row":{"name":"h0","ref":["uuid","`+missing+`"]}}]`)
	t.Logf("insert Holder with ref=%s (no such Target): %q", missing, e)
	if e == "" {
		t.Fatalf("control failed")
	}

	// ... but not if the nonexistent row is 00000000-0000-0000-0000-000000000000,
	// which is what the column holds when the insert leaves it out (RFC 7047
	// 5.2.1: columns not given take the default value, for uuid all zeros)
	for _, ops := range []string{
		`[{"op":"insert","table":"Holder","row":{"name":"h1"}}]`,
		`[{"op":"insert","table":"Holder","row":{"name":"h2","ref":["uuid","` + zero + `"]}}]`,
	} {
		e = transact(t, db, ops)
		t.Logf("%s: %q", ops, e)
		if e == "" {
			t.Errorf("VIOLATION: accepted %s; there is no row in Target at all", ops)
		}
	}
	holders, _ := db.List("RI", "Holder")
	targets, _ := db.List("RI", "Target")
	for _, h := range holders {
		t.Logf("stored: Holder %s name=%s ref=%q; rows in Target: %d", h.(*Holder).UUID, h.(*Holder).Name, h.(*Holder).Ref, len(targets))
	}
}

func TestC04ScalarWeakReferenceLeftAtDefault(t *testing.T) {
	db := newDB(t)

	// control: a weak reference to a row that does not exist would have to be
	// removed, which leaves the min-1 column empty: refused
	e := transact(t, db, `[{"op":"insert","table":"WHolder","row":{"name":"w0","ref":["uuid","`+missing+`"]}}]`)
	t.Logf("insert WHolder with ref=%s (no such Target): %q", missing, e)
	if e == "" {
		t.Fatalf("control failed")
	}

	ops := `[{"op":"insert","table":"WHolder","row":{"name":"w1"}}]`
	e = transact(t, db, ops)
	t.Logf("%s: %q", ops, e)
	if e == "" {
		t.Errorf("VIOLATION: accepted %s: the weak reference to the nonexistent row %s is neither removed nor is the transaction rejected", ops, zero)
	}
}
