// Demo for property C01 (a monitor-fed cache mirrors the database).
//
// An "integer" column (RFC 7047: a signed 64-bit integer) whose value does not
// fit the 53-bit mantissa of a float64: the client decodes every number of a
// notification / monitor reply through float64, so its cache holds a different
// integer than the database, for all three monitor methods and for the initial
// contents of a monitor as well.
//
// How to run: copy this file into a NEW directory of the libovsdb module, e.g.
//   mkdir /tmp/bh-C01/c01demo2 && cp demo_test.go /tmp/bh-C01/c01demo2/
//   cd /tmp/bh-C01 && GOFLAGS=-mod=mod GOPROXY=off GOSUMDB=off GOTOOLCHAIN=local go test -count=1 ./c01demo2/
// Only the public API is used (in-memory database + server + client over a
// unix socket). The contents of the database are read straight from the
// in-memory database handle (database.Database.List), because the reply of a
// "select" would go through the same lossy decoding. Nothing is interleaved.
//
// The value is produced by a mutation (2^53 += 1) so that the server really
// holds 2^53+1: an insert of 2^53+1 is already rounded by the *server's*
// decoding of the request (same root cause, but then both sides agree).
package c01demo2

import (
	"context"
	"encoding/json"
	"fmt"
	"os"
	"testing"
	"time"

	"github.com/ovn-org/libovsdb/client"
	"github.com/ovn-org/libovsdb/database/inmemory"
	"github.com/ovn-org/libovsdb/model"
	"github.com/ovn-org/libovsdb/ovsdb"
	"github.com/ovn-org/libovsdb/server"
)

const schemaJSON = `{
 "name": "T", "version": "0.0.1",
 "tables": {
  "Counter": {
    "isRoot": true,
    "columns": {
      "name": {"type": "string"},
      "n": {"type": "integer"},
      "stats": {"type": {"key": "string", "value": "integer", "min": 0, "max": "unlimited"}}
    }
  }
 }
}`

type Counter struct {
	UUID  string         `ovsdb:"_uuid"`
	Name  string         `ovsdb:"name"`
	N     int            `ovsdb:"n"`
	Stats map[string]int `ovsdb:"stats"`
}

func TestIntegerBeyond53Bits(t *testing.T) {
	var schema ovsdb.DatabaseSchema
	if err := json.Unmarshal([]byte(schemaJSON), &schema); err != nil {
		t.Fatal(err)
	}
	cdb, err := model.NewClientDBModel("T", map[string]model.Model{"Counter": &Counter{}})
	if err != nil {
		t.Fatal(err)
	}
	db := inmemory.NewDatabase(map[string]model.ClientDBModel{"T": cdb})
	dbModel, errs := model.NewDatabaseModel(schema, cdb)
	if len(errs) > 0 {
		t.Fatal(errs)
	}
	srv, err := server.NewOvsdbServer(db, dbModel)
	if err != nil {
		t.Fatal(err)
	}
	sock := fmt.Sprintf("/tmp/c01demo2-%d-%d.sock", os.Getpid(), time.Now().UnixNano())
	go func() { _ = srv.Serve("unix", sock) }()
	defer func() { srv.Close(); os.Remove(sock) }()
	for i := 0; i < 400 && !srv.Ready(); i++ {
		time.Sleep(5 * time.Millisecond)
	}

	newClient := func(method string) client.Client {
		c, err := client.NewOVSDBClient(cdb, client.WithEndpoint("unix:"+sock))
		if err != nil {
			t.Fatal(err)
		}
		if err := c.Connect(context.Background()); err != nil {
			t.Fatal(err)
		}
		if method != "" {
			m := c.NewMonitor(client.WithTable(&Counter{}))
			m.Method = method
			if _, err := c.Monitor(context.Background(), m); err != nil {
				t.Fatal(err)
			}
		}
		return c
	}
	transact := func(c client.Client, ops ...ovsdb.Operation) {
		res, err := c.Transact(context.Background(), ops...)
		if err != nil {
			t.Fatal(err)
		}
		if _, err := ovsdb.CheckOperationResults(res, ops); err != nil {
			t.Fatalf("%v: %+v", err, res)
		}
	}
	check := func(when, who string, c client.Client) {
		rows, err := db.List("T", "Counter")
		if err != nil {
			t.Fatal(err)
		}
		for uuid, row := range rows {
			inDB := row.(*Counter)
			cached := c.Cache().Table("Counter").Row(uuid)
			if cached == nil {
				t.Errorf("%s: %s: row %s is not in the cache", when, who, uuid)
				continue
			}
			inCache := cached.(*Counter)
			if inDB.N != inCache.N {
				t.Errorf("%s: %s: column n: database %d, cache %d", when, who, inDB.N, inCache.N)
			}
			if fmt.Sprint(inDB.Stats) != fmt.Sprint(inCache.Stats) {
				t.Errorf("%s: %s: column stats: database %v, cache %v", when, who, inDB.Stats, inCache.Stats)
			}
		}
	}

	methods := []string{ovsdb.MonitorRPC, ovsdb.ConditionalMonitorRPC, ovsdb.ConditionalMonitorSinceRPC}
	writer := newClient("")
	defer writer.Close()
	monitors := map[string]client.Client{}
	for _, m := range methods {
		monitors[m] = newClient(m)
		defer monitors[m].Close()
	}

	const twoTo53 = 9007199254740992 // exactly representable as a float64
	transact(writer, ovsdb.Operation{Op: "insert", Table: "Counter", Row: ovsdb.Row{"name": "rx_bytes", "n": twoTo53,
		"stats": ovsdb.OvsMap{GoMap: map[interface{}]interface{}{"rx": twoTo53}}}})
	time.Sleep(100 * time.Millisecond)
	for _, m := range methods {
		check("after the insert of 2^53", m, monitors[m])
	}
	if t.Failed() {
		t.FailNow()
	}

	// the counter goes up by one: the database now holds 2^53+1
	transact(writer, ovsdb.Operation{Op: "mutate", Table: "Counter",
		Where:     []ovsdb.Condition{ovsdb.NewCondition("name", ovsdb.ConditionEqual, "rx_bytes")},
		Mutations: []ovsdb.Mutation{*ovsdb.NewMutation("n", ovsdb.MutateOperationAdd, 1)}})
	time.Sleep(100 * time.Millisecond)
	for _, m := range methods {
		check("after n += 1 (notification)", m, monitors[m])
	}
	// a monitor established now gets the value as initial contents
	for _, m := range methods {
		c := newClient(m)
		check("after n += 1 (initial contents of a new monitor)", m, c)
		c.Close()
	}
}
