// Finding C16/1: the last-txn-id of a monitor_cond_since reply is thrown away
// when the reply says found=false, so the monitor keeps the STALE id of the
// session before. At the next connection loss the stale id is offered again; a
// server that still knows it answers found=true with the changes made since
// that old transaction, and the client applies them on top of a cache that
// contains them already (update2 "modify" carries differences: for a set the
// elements to toggle), so the cache silently diverges from the database.
//
// Where to put it / how to run (self-contained, public API only; it brings its
// own tiny schema and a ~150 line scripted OVSDB server that follows
// ovsdb-server(7) for monitor_cond_since / update3):
//
//	mkdir -p <libovsdb>/c16demo1 && cp demo_test.go <libovsdb>/c16demo1/
//	cd <libovsdb> && GOFLAGS=-mod=mod GOPROXY=off GOSUMDB=off GOTOOLCHAIN=local \
//	    go test ./c16demo1/ -run TestStaleLastTransactionIDAfterNotFoundReply -count=1 -v
//
// The subtest control_A_has_history passes, A_without_history fails.
//
// (inside the review worktree it can be run in place: go test ./findings/1/ ...)
//
// Nothing is forced: no sleeps to order events inside the library, no
// internals. The two endpoints stand for two members of one clustered database
// (same contents, same transaction ids); member A has no transaction history
// (it was restarted / joined from a snapshot), member B has.
package c16demo1

import (
	"context"
	"encoding/json"
	"fmt"
	"net"
	"os"
	"path/filepath"
	"sort"
	"sync"
	"testing"
	"time"

	"github.com/cenkalti/backoff/v4"
	"github.com/cenkalti/rpc2"
	"github.com/cenkalti/rpc2/jsonrpc"
	"github.com/go-logr/logr"
	"github.com/google/uuid"
	"github.com/ovn-org/libovsdb/client"
	"github.com/ovn-org/libovsdb/model"
	"github.com/ovn-org/libovsdb/ovsdb"
)

const zeroUUID = "00000000-0000-0000-0000-000000000000"

const schemaJSON = `{
  "name": "DB", "version": "1.0.0",
  "tables": {
    "T": {
      "isRoot": true,
      "columns": {
        "name": {"type": "string"},
        "tags": {"type": {"key": {"type": "string"}, "min": 0, "max": "unlimited"}}
      }
    }
  }
}`

type T struct {
	UUID string   `ovsdb:"_uuid"`
	Name string   `ovsdb:"name"`
	Tags []string `ovsdb:"tags"`
}

// ---------------------------------------------------------------------------
// the database shared by the two "cluster members"

type row struct {
	name string
	tags map[string]bool
}

func (r row) clone() row {
	c := row{name: r.name, tags: map[string]bool{}}
	for k := range r.tags {
		c.tags[k] = true
	}
	return c
}

func (r row) ovs() *ovsdb.Row {
	tags := []string{}
	for k := range r.tags {
		tags = append(tags, k)
	}
	sort.Strings(tags)
	set, _ := ovsdb.NewOvsSet(tags)
	return &ovsdb.Row{"name": r.name, "tags": set}
}

type snapshot struct {
	txn  string
	rows map[string]row
}

type sharedDB struct {
	mu      sync.Mutex
	rows    map[string]row
	history []snapshot // state after each committed transaction
	servers []*fakeServer
}

func (d *sharedDB) copyRows() map[string]row {
	c := map[string]row{}
	for k, v := range d.rows {
		c[k] = v.clone()
	}
	return c
}

func (d *sharedDB) lastTxn() string {
	if len(d.history) == 0 {
		return zeroUUID
	}
	return d.history[len(d.history)-1].txn
}

// diff renders the changes from -> to in update2 notation (ovsdb-server(7)):
// "insert" whole row, "delete", "modify" with, for a set column, the elements
// that have to be added or removed.
func diff(from, to map[string]row) ovsdb.TableUpdates2 {
	tu := ovsdb.TableUpdate2{}
	for id, n := range to {
		o, ok := from[id]
		if !ok {
			tu[id] = &ovsdb.RowUpdate2{Insert: n.ovs()}
			continue
		}
		mod := ovsdb.Row{}
		if o.name != n.name {
			mod["name"] = n.name
		}
		toggled := []string{}
		for k := range n.tags {
			if !o.tags[k] {
				toggled = append(toggled, k)
			}
		}
		for k := range o.tags {
			if !n.tags[k] {
				toggled = append(toggled, k)
			}
		}
		if len(toggled) > 0 {
			sort.Strings(toggled)
			set, _ := ovsdb.NewOvsSet(toggled)
			mod["tags"] = set
		}
		if len(mod) > 0 {
			tu[id] = &ovsdb.RowUpdate2{Modify: &mod}
		}
	}
	for id := range from {
		if _, ok := to[id]; !ok {
			tu[id] = &ovsdb.RowUpdate2{Delete: &ovsdb.Row{}}
		}
	}
	if len(tu) == 0 {
		return ovsdb.TableUpdates2{}
	}
	return ovsdb.TableUpdates2{"T": tu}
}

// commit applies a change as one transaction and notifies every monitor
func (d *sharedDB) commit(change func(rows map[string]row)) string {
	d.mu.Lock()
	defer d.mu.Unlock()
	before := d.copyRows()
	change(d.rows)
	txn := uuid.NewString()
	d.history = append(d.history, snapshot{txn: txn, rows: d.copyRows()})
	upd := diff(before, d.rows)
	for _, s := range d.servers {
		s.notify(txn, upd)
	}
	return txn
}

// ---------------------------------------------------------------------------
// one cluster member

type fakeServer struct {
	name        string
	db          *sharedDB
	keepHistory bool
	sock        string
	lis         net.Listener

	mu       sync.Mutex
	conns    []net.Conn
	monitors map[*rpc2.Client][]json.RawMessage // cookies
	log      []string                           // monitor_cond_since requests / replies
}

func newFakeServer(t *testing.T, name string, db *sharedDB, keepHistory bool) *fakeServer {
	s := &fakeServer{name: name, db: db, keepHistory: keepHistory,
		sock:     filepath.Join(t.TempDir(), name+".sock"),
		monitors: map[*rpc2.Client][]json.RawMessage{}}
	db.servers = append(db.servers, s)
	return s
}

func (s *fakeServer) listen(t *testing.T) {
	os.Remove(s.sock)
	lis, err := net.Listen("unix", s.sock)
	if err != nil {
		t.Fatal(err)
	}
	s.lis = lis
	srv := rpc2.NewServer()
	srv.Handle("list_dbs", func(_ *rpc2.Client, _ []interface{}, reply *[]string) error {
		*reply = []string{"DB"}
		return nil
	})
	srv.Handle("get_schema", func(_ *rpc2.Client, _ []interface{}, reply *json.RawMessage) error {
		*reply = json.RawMessage(schemaJSON)
		return nil
	})
	srv.Handle("echo", func(_ *rpc2.Client, args []interface{}, reply *[]interface{}) error {
		*reply = args
		return nil
	})
	srv.Handle("monitor_cond_since", s.monitorCondSince)
	srv.OnDisconnect(func(c *rpc2.Client) {
		s.mu.Lock()
		delete(s.monitors, c)
		s.mu.Unlock()
	})
	go func() {
		for {
			conn, err := lis.Accept()
			if err != nil {
				return
			}
			s.mu.Lock()
			s.conns = append(s.conns, conn)
			s.mu.Unlock()
			go srv.ServeCodec(jsonrpc.NewJSONCodec(conn))
		}
	}()
}

// monitor_cond_since as specified in ovsdb-server(7), 4.1.15
func (s *fakeServer) monitorCondSince(c *rpc2.Client, args []json.RawMessage, reply *ovsdb.MonitorCondSinceReply) error {
	var since string
	if err := json.Unmarshal(args[3], &since); err != nil {
		return err
	}
	s.db.mu.Lock()
	defer s.db.mu.Unlock()
	var base map[string]row
	found := false
	if s.keepHistory {
		for _, h := range s.db.history {
			if h.txn == since {
				found, base = true, h.rows
			}
		}
	}
	if found {
		// only the changes made after <since>
		*reply = ovsdb.MonitorCondSinceReply{Found: true, LastTransactionID: s.db.lastTxn(), Updates: diff(base, s.db.rows)}
	} else {
		// everything, as "initial" rows
		tu := ovsdb.TableUpdate2{}
		for id, r := range s.db.rows {
			tu[id] = &ovsdb.RowUpdate2{Initial: r.ovs()}
		}
		*reply = ovsdb.MonitorCondSinceReply{Found: false, LastTransactionID: s.db.lastTxn(), Updates: ovsdb.TableUpdates2{"T": tu}}
	}
	s.mu.Lock()
	s.monitors[c] = append(s.monitors[c], args[1])
	s.log = append(s.log, fmt.Sprintf("%s: monitor_cond_since(last-txn-id=%s) -> found=%v last-txn-id=%s",
		s.name, short(since), reply.Found, short(reply.LastTransactionID)))
	s.mu.Unlock()
	return nil
}

func (s *fakeServer) notify(txn string, upd ovsdb.TableUpdates2) {
	s.mu.Lock()
	defer s.mu.Unlock()
	for c, cookies := range s.monitors {
		for _, cookie := range cookies {
			_ = c.Notify("update3", []interface{}{cookie, txn, upd})
		}
	}
}

// stop closes the listener and resets every connection
func (s *fakeServer) stop() {
	s.lis.Close()
	s.cut()
}

func (s *fakeServer) cut() {
	s.mu.Lock()
	defer s.mu.Unlock()
	for _, c := range s.conns {
		c.Close()
	}
	s.conns = nil
}

func short(id string) string {
	if id == zeroUUID {
		return "zero"
	}
	return id[:8]
}

// ---------------------------------------------------------------------------

func cacheTags(c client.Client, id string) ([]string, bool) {
	m := c.Cache().Table("T").Row(id)
	if m == nil {
		return nil, false
	}
	tags := append([]string{}, m.(*T).Tags...)
	sort.Strings(tags)
	return tags, true
}

func dbTags(db *sharedDB, id string) []string {
	db.mu.Lock()
	defer db.mu.Unlock()
	tags := []string{}
	for k := range db.rows[id].tags {
		tags = append(tags, k)
	}
	sort.Strings(tags)
	return tags
}

func waitFor(t *testing.T, what string, cond func() bool) {
	t.Helper()
	deadline := time.Now().Add(5 * time.Second)
	for time.Now().Before(deadline) {
		if cond() {
			return
		}
		time.Sleep(10 * time.Millisecond)
	}
	t.Fatalf("timed out waiting for: %s", what)
}

func TestStaleLastTransactionIDAfterNotFoundReply(t *testing.T) {
	// control: both members know the history, the very same sequence is fine
	t.Run("control_A_has_history", func(t *testing.T) { run(t, true) })
	// failing case: member A answers found=false
	t.Run("A_without_history", func(t *testing.T) { run(t, false) })
}

func run(t *testing.T, aKeepsHistory bool) {
	db := &sharedDB{rows: map[string]row{}}
	srvA := newFakeServer(t, "A", db, aKeepsHistory) // without history it always answers found=false
	srvB := newFakeServer(t, "B", db, true)          // keeps history
	srvA.listen(t)                                   // B is not reachable for now

	rowID := uuid.NewString()
	db.commit(func(rows map[string]row) { rows[rowID] = row{name: "r", tags: map[string]bool{"a": true}} })

	dbModel, err := model.NewClientDBModel("DB", map[string]model.Model{"T": &T{}})
	if err != nil {
		t.Fatal(err)
	}
	quiet := logr.Discard()
	c, err := client.NewOVSDBClient(dbModel,
		client.WithEndpoint("unix:"+srvA.sock),
		client.WithEndpoint("unix:"+srvB.sock),
		client.WithReconnect(2*time.Second, backoff.NewConstantBackOff(20*time.Millisecond)),
		client.WithLogger(&quiet))
	if err != nil {
		t.Fatal(err)
	}
	if err := c.Connect(context.Background()); err != nil {
		t.Fatal(err)
	}
	defer c.Close()
	// one monitor, default method (monitor_cond_since)
	if _, err := c.Monitor(context.Background(), c.NewMonitor(client.WithTable(&T{}))); err != nil {
		t.Fatal(err)
	}
	sessions := func(s *fakeServer) int {
		s.mu.Lock()
		defer s.mu.Unlock()
		return len(s.log)
	}
	if sessions(srvA) != 1 {
		t.Fatalf("expected the client on A")
	}

	// T1: an update3 gives the monitor a (non-zero) last transaction id
	db.commit(func(rows map[string]row) { rows[rowID].tags["b"] = true })
	waitFor(t, "update3 of T1 applied", func() bool {
		tags, _ := cacheTags(c, rowID)
		return fmt.Sprint(tags) == "[a b]"
	})

	// first connection loss; T2 is committed by somebody else while the client is away
	srvA.stop()
	db.commit(func(rows map[string]row) { rows[rowID].tags["x"] = true })
	srvA.listen(t)
	// the client comes back to A; if A does not know T1: found=false, full
	// contents, last-txn-id=T2
	waitFor(t, "client back on A", func() bool { return sessions(srvA) == 2 && c.Connected() })
	waitFor(t, "cache resynchronised from A", func() bool {
		tags, _ := cacheTags(c, rowID)
		return fmt.Sprint(tags) == "[a b x]"
	})

	// second connection loss, nothing at all happens to the database; A stays
	// down, the client fails over to B, which has the history
	srvB.listen(t)
	srvA.stop()
	waitFor(t, "client on B", func() bool { return sessions(srvB) == 1 && c.Connected() })
	time.Sleep(200 * time.Millisecond)

	for _, l := range append(srvA.log, srvB.log...) {
		t.Log(l)
	}
	want := dbTags(db, rowID)
	got, ok := cacheTags(c, rowID)
	t.Logf("database: tags=%v   client cache (Connected()=%v): tags=%v present=%v", want, c.Connected(), got, ok)
	if fmt.Sprint(want) != fmt.Sprint(got) {
		t.Fatalf("after reconnecting the cache does not match the database: database has tags %v, cache has %v "+
			"(the client offered the last-txn-id it had BEFORE the previous resynchronisation, so the server "+
			"sent changes the cache already contained)", want, got)
	}
}
