// Demo for property C01 (a monitor-fed cache mirrors the database).
//
// A client whose model of a table leaves out a column of the schema (which the
// library documents as supported: "A field associated with the "_uuid" column
// mandatory. The rest of the columns are optional", model/model.go) monitors
// the table without naming fields. The monitor request then names ALL columns
// of the schema. An update2 (monitor_cond / monitor_cond_since, the default
// method) "modify" that includes the unmodelled column makes the whole
// notification fail: the columns the model does have keep their old values.
// Initial contents, inserts and the "update" encoding (method monitor) skip
// unmodelled columns and are fine.
//
// How to run: copy this file into a NEW directory of the libovsdb module, e.g.
//   mkdir /tmp/bh-C01/c01demo3 && cp demo_test.go /tmp/bh-C01/c01demo3/
//   cd /tmp/bh-C01 && GOFLAGS=-mod=mod GOPROXY=off GOSUMDB=off GOTOOLCHAIN=local go test -count=1 ./c01demo3/
// Only the public API is used (in-memory database + server + client over a
// unix socket). The contents of the database are read from the in-memory
// database handle (database.Database.List). Nothing is interleaved.
package c01demo3

import (
	"context"
	"encoding/json"
	"fmt"
	"os"
	"testing"
	"time"

	"github.com/ovn-org/libovsdb/client"
	"github.com/ovn-org/libovsdb/database/inmemory"
	"github.com/ovn-org/libovsdb/model"
	"github.com/ovn-org/libovsdb/ovsdb"
	"github.com/ovn-org/libovsdb/server"
)

const schemaJSON = `{
 "name": "T", "version": "0.0.1",
 "tables": {
  "Port": {
    "isRoot": true,
    "columns": {
      "name": {"type": "string"},
      "tag": {"type": "integer"},
      "external_ids": {"type": {"key": "string", "value": "string", "min": 0, "max": "unlimited"}}
    }
  }
 }
}`

// the model the server uses: every column
type Port struct {
	UUID        string            `ovsdb:"_uuid"`
	Name        string            `ovsdb:"name"`
	Tag         int               `ovsdb:"tag"`
	ExternalIDs map[string]string `ovsdb:"external_ids"`
}

// the model of the monitoring client: no field for "tag"
type PortNoTag struct {
	UUID        string            `ovsdb:"_uuid"`
	Name        string            `ovsdb:"name"`
	ExternalIDs map[string]string `ovsdb:"external_ids"`
}

func TestModelWithoutOneColumn(t *testing.T) {
	var schema ovsdb.DatabaseSchema
	if err := json.Unmarshal([]byte(schemaJSON), &schema); err != nil {
		t.Fatal(err)
	}
	full, err := model.NewClientDBModel("T", map[string]model.Model{"Port": &Port{}})
	if err != nil {
		t.Fatal(err)
	}
	partial, err := model.NewClientDBModel("T", map[string]model.Model{"Port": &PortNoTag{}})
	if err != nil {
		t.Fatal(err)
	}
	db := inmemory.NewDatabase(map[string]model.ClientDBModel{"T": full})
	dbModel, errs := model.NewDatabaseModel(schema, full)
	if len(errs) > 0 {
		t.Fatal(errs)
	}
	srv, err := server.NewOvsdbServer(db, dbModel)
	if err != nil {
		t.Fatal(err)
	}
	sock := fmt.Sprintf("/tmp/c01demo3-%d-%d.sock", os.Getpid(), time.Now().UnixNano())
	go func() { _ = srv.Serve("unix", sock) }()
	defer func() { srv.Close(); os.Remove(sock) }()
	for i := 0; i < 400 && !srv.Ready(); i++ {
		time.Sleep(5 * time.Millisecond)
	}

	connect := func(m model.ClientDBModel) client.Client {
		c, err := client.NewOVSDBClient(m, client.WithEndpoint("unix:"+sock))
		if err != nil {
			t.Fatal(err)
		}
		if err := c.Connect(context.Background()); err != nil {
			t.Fatal(err)
		}
		return c
	}
	transact := func(c client.Client, ops ...ovsdb.Operation) {
		res, err := c.Transact(context.Background(), ops...)
		if err != nil {
			t.Fatal(err)
		}
		if _, err := ovsdb.CheckOperationResults(res, ops); err != nil {
			t.Fatalf("%v: %+v", err, res)
		}
	}
	check := func(when, who string, c client.Client) {
		rows, err := db.List("T", "Port")
		if err != nil {
			t.Fatal(err)
		}
		cached := c.Cache().Table("Port").Rows()
		if len(cached) != len(rows) {
			t.Errorf("%s: %s: database holds %d rows, cache %d", when, who, len(rows), len(cached))
		}
		for uuid, row := range rows {
			inDB := row.(*Port)
			r, ok := cached[uuid]
			if !ok {
				t.Errorf("%s: %s: row %s is not in the cache", when, who, uuid)
				continue
			}
			inCache := r.(*PortNoTag)
			if inDB.Name != inCache.Name {
				t.Errorf("%s: %s: column name: database %q, cache %q", when, who, inDB.Name, inCache.Name)
			}
			if fmt.Sprint(inDB.ExternalIDs) != fmt.Sprint(inCache.ExternalIDs) {
				t.Errorf("%s: %s: column external_ids: database %v, cache %v", when, who, inDB.ExternalIDs, inCache.ExternalIDs)
			}
		}
	}

	writer := connect(full)
	defer writer.Close()
	transact(writer, ovsdb.Operation{Op: "insert", Table: "Port", Row: ovsdb.Row{"name": "p0", "tag": 1}})

	methods := []string{ovsdb.MonitorRPC, ovsdb.ConditionalMonitorRPC, ovsdb.ConditionalMonitorSinceRPC}
	monitors := map[string]client.Client{}
	for _, method := range methods {
		c := connect(partial)
		defer c.Close()
		m := c.NewMonitor(client.WithTable(&PortNoTag{}))
		m.Method = method
		if _, err := c.Monitor(context.Background(), m); err != nil {
			t.Fatal(err)
		}
		monitors[method] = c
		check("initial contents", method, c)
	}
	if t.Failed() {
		t.FailNow()
	}

	// one update operation changes a modelled and the unmodelled column
	transact(writer, ovsdb.Operation{Op: "update", Table: "Port",
		Where: []ovsdb.Condition{ovsdb.NewCondition("name", ovsdb.ConditionEqual, "p0")},
		Row: ovsdb.Row{"name": "p0-renamed", "tag": 2,
			"external_ids": ovsdb.OvsMap{GoMap: map[interface{}]interface{}{"k": "v"}}}})
	time.Sleep(200 * time.Millisecond)
	for _, method := range methods {
		check("after an update of name, external_ids and tag", method, monitors[method])
	}
}
