// Finding C07-3: the server does not remember which database a monitor
// belongs to. A transaction committed on database DB_B is notified to the
// monitors set up on database DB_A whenever the two databases have a table of
// the same name (e.g. OVN_Northbound and OVN_Southbound both have Connection,
// SSL, Meter, Load_Balancer, ...). The monitor of DB_A is told about inserted,
// modified and deleted rows that never existed in DB_A.
//
// Where to put it / how to run (unmodified tree):
//
//	cp findings/3/demo_test.go server/c07_3_demo_test.go     (package server)
//	export GOFLAGS=-mod=mod GOPROXY=off GOSUMDB=off GOTOOLCHAIN=local
//	go test ./server/ -run TestC07_3 -count=1
//
// End to end: a real OvsdbServer serving two databases on a unix socket and a
// plain JSON-RPC peer (cenkalti/rpc2, the transport the library itself uses)
// that records every "update"/"update2" request it receives. The server sends
// notifications with a synchronous call before it answers "transact", so once
// "transact" has returned all notifications of that transaction have been
// recorded.
package server

import (
	"encoding/json"
	"fmt"
	"net"
	"os"
	"path/filepath"
	"sync"
	"testing"
	"time"

	"github.com/cenkalti/rpc2"
	"github.com/cenkalti/rpc2/jsonrpc"
	"github.com/ovn-org/libovsdb/database/inmemory"
	"github.com/ovn-org/libovsdb/model"
	"github.com/ovn-org/libovsdb/ovsdb"
)

const c07cSchema = `{
  "name": "%s", "version": "1.0.0",
  "tables": {
    "T": {
      "isRoot": true,
      "columns": {
        "name": {"type": "string"},
        "note": {"type": "string"},
        "tags": {"type": {"key": "string", "value": "string", "min": 0, "max": "unlimited"}}
      }
    }
  }
}`

type c07cT struct {
	UUID string            `ovsdb:"_uuid"`
	Name string            `ovsdb:"name"`
	Note string            `ovsdb:"note"`
	Tags map[string]string `ovsdb:"tags"`
}

type c07cPeer struct {
	c    *rpc2.Client
	mu   sync.Mutex
	seen []string // "<method> <params>"
}

func (p *c07cPeer) take() []string {
	p.mu.Lock()
	defer p.mu.Unlock()
	s := p.seen
	p.seen = nil
	return s
}

func c07cStart(t *testing.T) (*c07cPeer, func()) {
	// two databases, DB_A and DB_B, with the same schema
	clientModels := map[string]model.ClientDBModel{}
	var dbModels []model.DatabaseModel
	for _, name := range []string{"DB_A", "DB_B"} {
		var schema ovsdb.DatabaseSchema
		if err := json.Unmarshal([]byte(fmt.Sprintf(c07cSchema, name)), &schema); err != nil {
			t.Fatal(err)
		}
		cm, err := model.NewClientDBModel(name, map[string]model.Model{"T": &c07cT{}})
		if err != nil {
			t.Fatal(err)
		}
		dbModel, errs := model.NewDatabaseModel(schema, cm)
		if len(errs) > 0 {
			t.Fatal(errs)
		}
		clientModels[name] = cm
		dbModels = append(dbModels, dbModel)
	}
	srv, err := NewOvsdbServer(inmemory.NewDatabase(clientModels), dbModels...)
	if err != nil {
		t.Fatal(err)
	}
	dir, err := os.MkdirTemp("", "c07c")
	if err != nil {
		t.Fatal(err)
	}
	sock := filepath.Join(dir, "db.sock")
	go func() { _ = srv.Serve("unix", sock) }()
	deadline := time.Now().Add(5 * time.Second)
	for !srv.Ready() {
		if time.Now().After(deadline) {
			t.Fatal("server not ready")
		}
		time.Sleep(5 * time.Millisecond)
	}
	conn, err := net.Dial("unix", sock)
	if err != nil {
		t.Fatal(err)
	}
	p := &c07cPeer{c: rpc2.NewClientWithCodec(jsonrpc.NewJSONCodec(conn))}
	for _, method := range []string{"update", "update2"} {
		method := method
		p.c.Handle(method, func(_ *rpc2.Client, params []json.RawMessage, reply *[]interface{}) error {
			b, _ := json.Marshal(params)
			p.mu.Lock()
			p.seen = append(p.seen, method+" "+string(b))
			p.mu.Unlock()
			*reply = []interface{}{}
			return nil
		})
	}
	go p.c.Run()
	return p, func() { p.c.Close(); srv.Close(); os.RemoveAll(dir) }
}

func (p *c07cPeer) call(t *testing.T, method string, args ...interface{}) json.RawMessage {
	var reply json.RawMessage
	if err := p.c.Call(method, args, &reply); err != nil {
		t.Fatalf("%s: %v", method, err)
	}
	return reply
}

func (p *c07cPeer) transact(t *testing.T, db string, ops ...ovsdb.Operation) []ovsdb.OperationResult {
	args := []interface{}{db}
	for _, op := range ops {
		args = append(args, op)
	}
	var results []ovsdb.OperationResult
	if err := json.Unmarshal(p.call(t, "transact", args...), &results); err != nil {
		t.Fatal(err)
	}
	for _, r := range results {
		if r.Error != "" {
			t.Fatalf("transaction failed: %s (%s)", r.Error, r.Details)
		}
	}
	return results
}

func TestC07_3_TransactionOnAnotherDatabaseIsNotified(t *testing.T) {
	p, stop := c07cStart(t)
	defer stop()

	// monitors on database DB_A only
	req := map[string]interface{}{"T": map[string]interface{}{"columns": []string{"name", "note", "tags"}}}
	p.call(t, "monitor", "DB_A", "rfc7047-monitor-of-DB_A", req)
	p.call(t, "monitor_cond", "DB_A", "update2-monitor-of-DB_A", req)

	// a transaction on database DB_B
	p.transact(t, "DB_B", ovsdb.Operation{Op: ovsdb.OperationInsert, Table: "T",
		Row: ovsdb.Row{"name": "row-of-DB_B", "note": "x"}})

	got := p.take()
	for _, n := range got {
		fmt.Println("notification after a transaction on DB_B:", n)
	}

	// DB_A did not change: its table T is still empty
	res := p.transact(t, "DB_A", ovsdb.Operation{Op: ovsdb.OperationSelect, Table: "T"})
	fmt.Printf("rows of DB_A.T after it: %d\n", len(res[0].Rows))
	if len(res[0].Rows) != 0 {
		t.Fatalf("test bug: DB_A.T is not empty")
	}
	if len(got) != 0 {
		t.Fatalf("DB_A did not change, yet its monitors received %d notifications (for a row inserted into DB_B)", len(got))
	}
}
