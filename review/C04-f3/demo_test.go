// Finding C04/3 - the reference tracker remembers which rows it has loaded the
// existing references of by UUID only, not by (table, UUID). A weak reference
// column that points to table B and holds a UUID which is (also/only) a row of
// table A makes the tracker believe it already knows the references to A's
// row: the references stored for it are never loaded and are then overwritten.
// Result: a non-root row stays although nothing references it (test 1,
// deterministic), or is deleted although a row still references it strongly,
// which leaves a dangling strong reference in the database (test 2).
//
// How to run: copy this file into a NEW directory of the worktree, e.g.
//
//	mkdir /tmp/bh-C04/c04demo3 && cp demo_test.go /tmp/bh-C04/c04demo3/
//	cd /tmp/bh-C04 && export GOFLAGS=-mod=mod GOPROXY=off GOSUMDB=off GOTOOLCHAIN=local
//	go test ./c04demo3/ -run TestC04 -v
//
// The operations are given as the JSON a client would send; they are executed
// the way server.(*OvsdbServer).Transact does: database.NewTransaction ->
// Transact -> Commit if no operation failed. Nothing is forced, no internals.
// A weak reference to a UUID that is not a row of the referenced table is
// valid input: RFC 7047 says such references are silently dropped.
package c04demo3

import (
	"encoding/json"
	"testing"

	"github.com/google/uuid"
	"github.com/ovn-org/libovsdb/database"
	"github.com/ovn-org/libovsdb/database/inmemory"
	"github.com/ovn-org/libovsdb/model"
	"github.com/ovn-org/libovsdb/ovsdb"
)

// Root.mids   : strong references to Mid (non-root)
// Root.others : WEAK references to Other
// Mid.next    : optional strong reference to Mid
const schema = `{"name":"RI","version":"1.0.0","tables":{
 "Root":{"isRoot":true,"columns":{
   "name":{"type":"string"},
   "mids":{"type":{"key":{"type":"uuid","refTable":"Mid","refType":"strong"},"min":0,"max":"unlimited"}},
   "others":{"type":{"key":{"type":"uuid","refTable":"Other","refType":"weak"},"min":0,"max":"unlimited"}}}},
 "Other":{"isRoot":true,"columns":{"name":{"type":"string"}}},
 "Mid":{"columns":{
   "name":{"type":"string"},
   "next":{"type":{"key":{"type":"uuid","refTable":"Mid","refType":"strong"},"min":0,"max":1}}}}
}}`

type Root struct {
	UUID   string   `ovsdb:"_uuid"`
	Name   string   `ovsdb:"name"`
	Mids   []string `ovsdb:"mids"`
	Others []string `ovsdb:"others"`
}
type Other struct {
	UUID string `ovsdb:"_uuid"`
	Name string `ovsdb:"name"`
}
type Mid struct {
	UUID string  `ovsdb:"_uuid"`
	Name string  `ovsdb:"name"`
	Next *string `ovsdb:"next"`
}

const (
	R1 = "11111111-1111-1111-1111-111111111111"
	R2 = "11111111-1111-1111-1111-222222222222"
	M0 = "33333333-3333-3333-3333-000000000000"
	M1 = "33333333-3333-3333-3333-111111111111"
)

func newDB(t *testing.T) database.Database {
	var s ovsdb.DatabaseSchema
	if err := json.Unmarshal([]byte(schema), &s); err != nil {
		t.Fatal(err)
	}
	cm, err := model.NewClientDBModel("RI", map[string]model.Model{"Root": &Root{}, "Other": &Other{}, "Mid": &Mid{}})
	if err != nil {
		t.Fatal(err)
	}
	db := inmemory.NewDatabase(map[string]model.ClientDBModel{"RI": cm})
	if err := db.CreateDatabase("RI", s); err != nil {
		t.Fatal(err)
	}
	return db
}

// transact = what server.Transact does; every transaction here must be accepted
func transact(t *testing.T, db database.Database, opsJSON string) {
	var ops []ovsdb.Operation
	if err := json.Unmarshal([]byte(opsJSON), &ops); err != nil {
		t.Fatal(err)
	}
	tx := db.NewTransaction("RI")
	res, upd := tx.Transact(ops...)
	for _, r := range res {
		if r != nil && r.Error != "" {
			t.Fatalf("unexpected error for %s: %s: %s", opsJSON, r.Error, r.Details)
		}
	}
	if err := db.Commit("RI", uuid.New(), upd); err != nil {
		t.Fatalf("commit: %v", err)
	}
}

func mids(t *testing.T, db database.Database) map[string]*Mid {
	rows, err := db.List("RI", "Mid")
	if err != nil {
		t.Fatal(err)
	}
	out := map[string]*Mid{}
	for u, m := range rows {
		out[u] = m.(*Mid)
	}
	return out
}

func roots(t *testing.T, db database.Database) map[string]*Root {
	rows, err := db.List("RI", "Root")
	if err != nil {
		t.Fatal(err)
	}
	out := map[string]*Root{}
	for u, m := range rows {
		out[u] = m.(*Root)
	}
	return out
}

// Test 1 (deterministic). r1 -> m0 -> m1. One transaction empties r1.mids and
// puts m1's UUID into r1.others (weak, refers to table Other, where there is no
// such row, so the value is dropped again). m0 is garbage, and so is m1, which
// only m0 referenced. The library keeps m1.
func TestC04UnreferencedNonRootRowStays(t *testing.T) {
	// control: without the stray weak value both rows are collected
	db := newDB(t)
	transact(t, db, `[
	 {"op":"insert","table":"Mid","uuid":"`+M1+`","row":{"name":"m1"}},
	 {"op":"insert","table":"Mid","uuid":"`+M0+`","row":{"name":"m0","next":["uuid","`+M1+`"]}},
	 {"op":"insert","table":"Root","uuid":"`+R1+`","row":{"name":"r1","mids":["set",[["uuid","`+M0+`"]]]}}]`)
	transact(t, db, `[{"op":"update","table":"Root","where":[["_uuid","==",["uuid","`+R1+`"]]],"row":{"mids":["set",[]]}}]`)
	if n := len(mids(t, db)); n != 0 {
		t.Fatalf("control: %d rows left in Mid", n)
	}

	db = newDB(t)
	transact(t, db, `[
	 {"op":"insert","table":"Mid","uuid":"`+M1+`","row":{"name":"m1"}},
	 {"op":"insert","table":"Mid","uuid":"`+M0+`","row":{"name":"m0","next":["uuid","`+M1+`"]}},
	 {"op":"insert","table":"Root","uuid":"`+R1+`","row":{"name":"r1","mids":["set",[["uuid","`+M0+`"]]]}}]`)
	transact(t, db, `[{"op":"update","table":"Root","where":[["_uuid","==",["uuid","`+R1+`"]]],"row":{"mids":["set",[]],"others":["set",[["uuid","`+M1+`"]]]}}]`)

	r1 := roots(t, db)[R1]
	t.Logf("after the transaction: r1.mids=%v r1.others=%v", r1.Mids, r1.Others)
	left := mids(t, db)
	for u, m := range left {
		t.Logf("row left in non-root table Mid: %s name=%s", u, m.Name)
	}
	if len(left) != 0 {
		t.Errorf("VIOLATION: %d row(s) of the non-root table Mid exist after the commit although no row references them", len(left))
	}
}

// Test 2. r1 -> m1. r2 is inserted with mids=[m1] and others=[m1's UUID]
// (dropped, no such row in Other). Then r2 gives up its reference to m1. r1
// still references m1, so m1 must stay. Whether the library gets it wrong
// depends on the iteration order of a Go map inside
// referenceTracker.processRowUpdate (which of the two columns of r2 it looks
// at first), so the scenario is repeated on fresh databases; about half of
// the repetitions end with r1.mids pointing to a deleted row.
func TestC04StronglyReferencedRowDeleted(t *testing.T) {
	bad := 0
	const attempts = 40
	for i := 0; i < attempts; i++ {
		db := newDB(t)
		transact(t, db, `[
		 {"op":"insert","table":"Mid","uuid":"`+M1+`","row":{"name":"m1"}},
		 {"op":"insert","table":"Root","uuid":"`+R1+`","row":{"name":"r1","mids":["set",[["uuid","`+M1+`"]]]}}]`)
		transact(t, db, `[{"op":"insert","table":"Root","uuid":"`+R2+`","row":{"name":"r2","mids":["set",[["uuid","`+M1+`"]]],"others":["set",[["uuid","`+M1+`"]]]}}]`)
		transact(t, db, `[{"op":"mutate","table":"Root","where":[["_uuid","==",["uuid","`+R2+`"]]],"mutations":[["mids","delete",["uuid","`+M1+`"]]]}]`)
		r1 := roots(t, db)[R1]
		if _, ok := mids(t, db)[M1]; !ok {
			if bad == 0 {
				t.Logf("attempt %d: r1.mids=%v but table Mid has %d rows", i, r1.Mids, len(mids(t, db)))
			}
			bad++
		}
	}
	t.Logf("%d of %d repetitions ended with a dangling strong reference", bad, attempts)
	if bad > 0 {
		t.Errorf("VIOLATION: r1.mids strongly references %s, which was deleted (in %d of %d repetitions)", M1, bad, attempts)
	}
}
