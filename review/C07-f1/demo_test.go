// Finding C07-1: a transaction that only changes columns a monitor did NOT
// select still produces a notification for that monitor: an "update" whose
// old and new rows are identical, and an "update2" with an empty "modify".
//
// Where to put it / how to run (unmodified tree):
//
//	cp findings/1/demo_test.go server/c07_1_demo_test.go     (package server)
//	export GOFLAGS=-mod=mod GOPROXY=off GOSUMDB=off GOTOOLCHAIN=local
//	go test ./server/ -run TestC07_1 -count=1
//
// The test is end to end: a real OvsdbServer on a unix socket and a plain
// JSON-RPC peer (cenkalti/rpc2, the transport the library itself uses) that
// records every "update"/"update2" request it receives, byte for byte. The
// server sends notifications with a synchronous call before it answers the
// "transact" request, so once "transact" has returned every notification of
// that transaction has been recorded: no sleeps, no races.
package server

import (
	"encoding/json"
	"fmt"
	"net"
	"os"
	"path/filepath"
	"sync"
	"testing"
	"time"

	"github.com/cenkalti/rpc2"
	"github.com/cenkalti/rpc2/jsonrpc"
	"github.com/ovn-org/libovsdb/database/inmemory"
	"github.com/ovn-org/libovsdb/model"
	"github.com/ovn-org/libovsdb/ovsdb"
)

const c07aSchema = `{
  "name": "DB_A", "version": "1.0.0",
  "tables": {
    "T": {
      "isRoot": true,
      "columns": {
        "name": {"type": "string"},
        "note": {"type": "string"},
        "tags": {"type": {"key": "string", "value": "string", "min": 0, "max": "unlimited"}}
      }
    }
  }
}`

type c07aT struct {
	UUID string            `ovsdb:"_uuid"`
	Name string            `ovsdb:"name"`
	Note string            `ovsdb:"note"`
	Tags map[string]string `ovsdb:"tags"`
}

type c07aPeer struct {
	c    *rpc2.Client
	mu   sync.Mutex
	seen []string // "<method> <params>"
}

func (p *c07aPeer) take() []string {
	p.mu.Lock()
	defer p.mu.Unlock()
	s := p.seen
	p.seen = nil
	return s
}

func c07aStart(t *testing.T) (*c07aPeer, func()) {
	var schema ovsdb.DatabaseSchema
	if err := json.Unmarshal([]byte(c07aSchema), &schema); err != nil {
		t.Fatal(err)
	}
	cm, err := model.NewClientDBModel("DB_A", map[string]model.Model{"T": &c07aT{}})
	if err != nil {
		t.Fatal(err)
	}
	dbModel, errs := model.NewDatabaseModel(schema, cm)
	if len(errs) > 0 {
		t.Fatal(errs)
	}
	srv, err := NewOvsdbServer(inmemory.NewDatabase(map[string]model.ClientDBModel{"DB_A": cm}), dbModel)
	if err != nil {
		t.Fatal(err)
	}
	dir, err := os.MkdirTemp("", "c07a")
	if err != nil {
		t.Fatal(err)
	}
	sock := filepath.Join(dir, "db.sock")
	go func() { _ = srv.Serve("unix", sock) }()
	deadline := time.Now().Add(5 * time.Second)
	for !srv.Ready() {
		if time.Now().After(deadline) {
			t.Fatal("server not ready")
		}
		time.Sleep(5 * time.Millisecond)
	}
	conn, err := net.Dial("unix", sock)
	if err != nil {
		t.Fatal(err)
	}
	p := &c07aPeer{c: rpc2.NewClientWithCodec(jsonrpc.NewJSONCodec(conn))}
	for _, method := range []string{"update", "update2"} {
		method := method
		p.c.Handle(method, func(_ *rpc2.Client, params []json.RawMessage, reply *[]interface{}) error {
			b, _ := json.Marshal(params)
			p.mu.Lock()
			p.seen = append(p.seen, method+" "+string(b))
			p.mu.Unlock()
			*reply = []interface{}{}
			return nil
		})
	}
	go p.c.Run()
	return p, func() { p.c.Close(); srv.Close(); os.RemoveAll(dir) }
}

func (p *c07aPeer) call(t *testing.T, method string, args ...interface{}) json.RawMessage {
	var reply json.RawMessage
	if err := p.c.Call(method, args, &reply); err != nil {
		t.Fatalf("%s: %v", method, err)
	}
	return reply
}

func (p *c07aPeer) transact(t *testing.T, ops ...ovsdb.Operation) {
	args := []interface{}{"DB_A"}
	for _, op := range ops {
		args = append(args, op)
	}
	var results []ovsdb.OperationResult
	if err := json.Unmarshal(p.call(t, "transact", args...), &results); err != nil {
		t.Fatal(err)
	}
	for _, r := range results {
		if r.Error != "" {
			t.Fatalf("transaction failed: %s (%s)", r.Error, r.Details)
		}
	}
}

func TestC07_1_ChangeOfUnselectedColumnIsNotified(t *testing.T) {
	p, stop := c07aStart(t)
	defer stop()

	// both monitors select column "name" of table T only
	req := map[string]interface{}{"T": map[string]interface{}{"columns": []string{"name"}}}
	p.call(t, "monitor", "DB_A", "rfc7047-monitor", req)
	p.call(t, "monitor_cond", "DB_A", "update2-monitor", req)

	p.transact(t, ovsdb.Operation{Op: ovsdb.OperationInsert, Table: "T",
		Row: ovsdb.Row{"name": "row1", "note": "x"}})
	if got := p.take(); len(got) != 2 {
		t.Fatalf("expected the insert to be notified once per monitor, got %v", got)
	}

	// this transaction changes "note" and "tags" only: the monitored part of
	// the database (T.name) is the same before and after it
	p.transact(t, ovsdb.Operation{Op: ovsdb.OperationUpdate, Table: "T",
		Where: []ovsdb.Condition{ovsdb.NewCondition("name", ovsdb.ConditionEqual, "row1")},
		Row:   ovsdb.Row{"note": "y"}},
		ovsdb.Operation{Op: ovsdb.OperationMutate, Table: "T",
			Where:     []ovsdb.Condition{ovsdb.NewCondition("name", ovsdb.ConditionEqual, "row1")},
			Mutations: []ovsdb.Mutation{*ovsdb.NewMutation("tags", ovsdb.MutateOperationInsert, ovsdb.OvsMap{GoMap: map[interface{}]interface{}{"k": "v"}})}})

	got := p.take()
	for _, n := range got {
		fmt.Println("notification for a transaction that changed nothing the monitor selected:", n)
	}
	if len(got) != 0 {
		t.Fatalf("the monitors select T.name only and T.name did not change, yet %d notifications were sent", len(got))
	}
}
