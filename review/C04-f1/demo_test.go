// Finding C04/1 - a transaction is rejected because of the minimum of a weak
// reference column of a row that the very same transaction garbage collects.
//
// How to run: copy this file into a NEW directory of the worktree, e.g.
//
//	mkdir /tmp/bh-C04/c04demo1 && cp demo_test.go /tmp/bh-C04/c04demo1/
//	cd /tmp/bh-C04 && export GOFLAGS=-mod=mod GOPROXY=off GOSUMDB=off GOTOOLCHAIN=local
//	go test ./c04demo1/ -run TestC04 -v
//
// (package c04demo1, it only imports public packages of the module). The
// operations are given as the JSON a client would send; they are executed the
// way server.(*OvsdbServer).Transact does: database.NewTransaction ->
// Transact -> Commit if no operation failed. Nothing is forced, no internals.
package c04demo1

import (
	"encoding/json"
	"testing"

	"github.com/google/uuid"
	"github.com/ovn-org/libovsdb/database"
	"github.com/ovn-org/libovsdb/database/inmemory"
	"github.com/ovn-org/libovsdb/model"
	"github.com/ovn-org/libovsdb/ovsdb"
)

// Root (root set) --strong--> Mid (non-root) --strong--> Dep (non-root)
// Dep.req is a set of WEAK references to Other with min 1.
const schema = `{"name":"RI","version":"1.0.0","tables":{
 "Root":{"isRoot":true,"columns":{
   "name":{"type":"string"},
   "mids":{"type":{"key":{"type":"uuid","refTable":"Mid","refType":"strong"},"min":0,"max":"unlimited"}},
   "deps":{"type":{"key":{"type":"uuid","refTable":"Dep","refType":"strong"},"min":0,"max":"unlimited"}}}},
 "Other":{"isRoot":true,"columns":{"name":{"type":"string"}}},
 "Mid":{"columns":{
   "name":{"type":"string"},
   "deps":{"type":{"key":{"type":"uuid","refTable":"Dep","refType":"strong"},"min":0,"max":"unlimited"}}}},
 "Dep":{"columns":{
   "name":{"type":"string"},
   "req":{"type":{"key":{"type":"uuid","refTable":"Other","refType":"weak"},"min":1,"max":"unlimited"}}}}
}}`

type Root struct {
	UUID string   `ovsdb:"_uuid"`
	Name string   `ovsdb:"name"`
	Mids []string `ovsdb:"mids"`
	Deps []string `ovsdb:"deps"`
}
type Other struct {
	UUID string `ovsdb:"_uuid"`
	Name string `ovsdb:"name"`
}
type Mid struct {
	UUID string   `ovsdb:"_uuid"`
	Name string   `ovsdb:"name"`
	Deps []string `ovsdb:"deps"`
}
type Dep struct {
	UUID string   `ovsdb:"_uuid"`
	Name string   `ovsdb:"name"`
	Req  []string `ovsdb:"req"`
}

const (
	R = "11111111-1111-1111-1111-111111111111"
	O = "22222222-2222-2222-2222-222222222222"
	M = "33333333-3333-3333-3333-333333333333"
	D = "44444444-4444-4444-4444-444444444444"
)

func newDB(t *testing.T) database.Database {
	var s ovsdb.DatabaseSchema
	if err := json.Unmarshal([]byte(schema), &s); err != nil {
		t.Fatal(err)
	}
	cm, err := model.NewClientDBModel("RI", map[string]model.Model{"Root": &Root{}, "Other": &Other{}, "Mid": &Mid{}, "Dep": &Dep{}})
	if err != nil {
		t.Fatal(err)
	}
	db := inmemory.NewDatabase(map[string]model.ClientDBModel{"RI": cm})
	if err := db.CreateDatabase("RI", s); err != nil {
		t.Fatal(err)
	}
	return db
}

// transact = what server.Transact does. Returns "" if committed, else the error
func transact(t *testing.T, db database.Database, opsJSON string) string {
	var ops []ovsdb.Operation
	if err := json.Unmarshal([]byte(opsJSON), &ops); err != nil {
		t.Fatal(err)
	}
	tx := db.NewTransaction("RI")
	res, upd := tx.Transact(ops...)
	for _, r := range res {
		if r != nil && r.Error != "" {
			return r.Error + ": " + r.Details
		}
	}
	if err := db.Commit("RI", uuid.New(), upd); err != nil {
		t.Fatalf("commit: %v", err)
	}
	return ""
}

func count(t *testing.T, db database.Database, table string) int {
	rows, err := db.List("RI", table)
	if err != nil {
		t.Fatal(err)
	}
	return len(rows)
}

// Root R -> Mid M -> Dep D, D.req = [O]
func populate(t *testing.T, db database.Database) {
	if e := transact(t, db, `[
	 {"op":"insert","table":"Other","uuid":"`+O+`","row":{"name":"o"}},
	 {"op":"insert","table":"Dep","uuid":"`+D+`","row":{"name":"d","req":["set",[["uuid","`+O+`"]]]}},
	 {"op":"insert","table":"Mid","uuid":"`+M+`","row":{"name":"m","deps":["set",[["uuid","`+D+`"]]]}},
	 {"op":"insert","table":"Root","uuid":"`+R+`","row":{"name":"r","mids":["set",[["uuid","`+M+`"]]]}}]`); e != "" {
		t.Fatalf("populate: %s", e)
	}
}

const dropMid = `{"op":"update","table":"Root","where":[["_uuid","==",["uuid","` + R + `"]]],"row":{"mids":["set",[]]}}`
const deleteOther = `{"op":"delete","table":"Other","where":[["_uuid","==",["uuid","` + O + `"]]]}`

// One transaction removes the only strong reference to M (so M, and then D,
// which only M references, are garbage: both must be deleted as part of the
// transaction) and deletes O, the only element of D.req. After the commit no
// row is left whose weak reference column is below its minimum - D does not
// exist any more - so the transaction has to be accepted (RFC 7047 3.2/ovsdb-server:
// garbage collection comes first, weak references of deleted rows are not
// assessed).
func TestC04GarbageRowMinimumRejectsTransaction(t *testing.T) {
	// control 1: the same two changes in two transactions are accepted and
	// end in: Root r, nothing else
	db := newDB(t)
	populate(t, db)
	if e := transact(t, db, "["+dropMid+"]"); e != "" {
		t.Fatalf("control: %s", e)
	}
	if e := transact(t, db, "["+deleteOther+"]"); e != "" {
		t.Fatalf("control: %s", e)
	}
	if count(t, db, "Mid")+count(t, db, "Dep")+count(t, db, "Other") != 0 {
		t.Fatalf("control: unexpected rows left")
	}

	// control 2: same single transaction when D hangs directly below the
	// root row (collected in the first round): accepted
	db = newDB(t)
	if e := transact(t, db, `[
	 {"op":"insert","table":"Other","uuid":"`+O+`","row":{"name":"o"}},
	 {"op":"insert","table":"Dep","uuid":"`+D+`","row":{"name":"d","req":["set",[["uuid","`+O+`"]]]}},
	 {"op":"insert","table":"Root","uuid":"`+R+`","row":{"name":"r","deps":["set",[["uuid","`+D+`"]]]}}]`); e != "" {
		t.Fatalf("control 2 populate: %s", e)
	}
	if e := transact(t, db, `[{"op":"update","table":"Root","where":[["_uuid","==",["uuid","`+R+`"]]],"row":{"deps":["set",[]]}},`+deleteOther+`]`); e != "" {
		t.Fatalf("control 2: %s", e)
	}

	// the case: one transaction, D two levels below the root row
	db = newDB(t)
	populate(t, db)
	e := transact(t, db, "["+dropMid+","+deleteOther+"]")
	t.Logf("result of [drop the reference to M, delete O]: %q", e)
	t.Logf("rows afterwards: Root=%d Mid=%d Dep=%d Other=%d", count(t, db, "Root"), count(t, db, "Mid"), count(t, db, "Dep"), count(t, db, "Other"))
	if e != "" {
		t.Errorf("VIOLATION: the transaction was rejected (%s) although it leaves no row with a weak reference column below its minimum: "+
			"row %s of Dep is garbage collected by this very transaction", e, D)
	}
}
