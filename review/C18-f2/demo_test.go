// C18 finding 2: data race between the client API and a reconnect.
//
// cache.TableCache.DatabaseModel() and cache.TableCache.Mapper() read
// t.dbModel without taking t.mutex, while cache.TableCache.Purge() - run by the
// client's reconnect logic every time the connection is re-established -
// assigns t.dbModel (a multi-word struct) under t.mutex. Every operation
// builder of the client API (Create, Where(...).Update/Mutate/Delete/List,
// WhereAll, WhereCache, Get ...) goes through DatabaseModel()/Mapper(), and
// the builders are not serialised with the reconnect by any client-level lock
// (ovsdbClient.Create/Where* do not take cacheMutex). So a goroutine that
// merely builds operations while the connection is lost and re-established
// races with the purge.
//
// Copy this file to   client/c18_f2_demo_test.go   (package client) and run
//
//	export GOFLAGS=-mod=mod GOPROXY=off GOSUMDB=off GOTOOLCHAIN=local
//	go test -race ./client/ -run TestC18F2 -count=1
//
// The test is self-contained (own schema, model and a hand-written OVSDB
// server speaking JSON-RPC over a unix socket). It uses the public API only;
// no sleeps or internals are needed to pin an ordering: the race detector
// reports the unsynchronised accesses as soon as one reconnect has happened
// while the other goroutine is calling Create().
package client

import (
	"context"
	"encoding/json"
	"net"
	"path/filepath"
	"sync"
	"sync/atomic"
	"testing"
	"time"

	"github.com/cenkalti/backoff/v4"
	"github.com/ovn-org/libovsdb/model"
)

const c18f2Schema = `{
  "name": "C18DB",
  "version": "1.0.0",
  "tables": {
    "T1": {"columns": {"name": {"type": "string"}}, "isRoot": true}
  }
}`

type c18f2T1 struct {
	UUID string `ovsdb:"_uuid"`
	Name string `ovsdb:"name"`
}

type c18f2Msg struct {
	Method string            `json:"method"`
	Params []json.RawMessage `json:"params"`
	ID     json.RawMessage   `json:"id"`
}

// c18f2Serve is a minimal, well-behaved OVSDB server for one connection.
func c18f2Serve(conn net.Conn, monitorsServed *int32) {
	defer conn.Close()
	var mu sync.Mutex
	enc := json.NewEncoder(conn)
	reply := func(id json.RawMessage, result interface{}) {
		mu.Lock()
		defer mu.Unlock()
		_ = enc.Encode(map[string]interface{}{"id": id, "result": result, "error": nil})
	}
	dec := json.NewDecoder(conn)
	for {
		var m c18f2Msg
		if err := dec.Decode(&m); err != nil {
			return
		}
		switch m.Method {
		case "list_dbs":
			reply(m.ID, []string{"C18DB"})
		case "get_schema":
			reply(m.ID, json.RawMessage(c18f2Schema))
		case "echo":
			reply(m.ID, m.Params)
		case "monitor_cond_since":
			// the requested transaction id is not known: full contents (one row)
			reply(m.ID, []interface{}{false, "00000000-0000-0000-0000-000000000000",
				map[string]interface{}{
					"T1": map[string]interface{}{
						"22222222-2222-2222-2222-222222222222": map[string]interface{}{
							"initial": map[string]interface{}{"name": "row"},
						},
					},
				}})
			atomic.AddInt32(monitorsServed, 1)
		default:
			mu.Lock()
			_ = enc.Encode(map[string]interface{}{"id": m.ID, "result": nil, "error": "unknown method"})
			mu.Unlock()
		}
	}
}

func TestC18F2APICallsRaceWithReconnect(t *testing.T) {
	sock := filepath.Join(t.TempDir(), "c18f2.sock")
	ln, err := net.Listen("unix", sock)
	if err != nil {
		t.Fatal(err)
	}
	defer ln.Close()
	var monitorsServed int32
	go func() {
		for {
			conn, err := ln.Accept()
			if err != nil {
				return
			}
			go c18f2Serve(conn, &monitorsServed)
		}
	}()

	dbModel, err := model.NewClientDBModel("C18DB", map[string]model.Model{"T1": &c18f2T1{}})
	if err != nil {
		t.Fatal(err)
	}
	c, err := NewOVSDBClient(dbModel,
		WithEndpoint("unix:"+sock),
		WithReconnect(2*time.Second, backoff.NewConstantBackOff(10*time.Millisecond)))
	if err != nil {
		t.Fatal(err)
	}
	if err := c.Connect(context.Background()); err != nil {
		t.Fatal(err)
	}
	if _, err := c.MonitorAll(context.Background()); err != nil {
		t.Fatal(err)
	}

	// goroutine 1: an application thread that keeps building operations
	stop := make(chan struct{})
	var wg sync.WaitGroup
	wg.Add(1)
	go func() {
		defer wg.Done()
		for {
			select {
			case <-stop:
				return
			default:
			}
			if _, err := c.Create(&c18f2T1{Name: "x"}); err != nil {
				t.Errorf("Create: %v", err)
				return
			}
		}
	}()

	// goroutine 2 (this one): the connection is lost and re-established
	for i := 0; i < 3; i++ {
		before := atomic.LoadInt32(&monitorsServed)
		c.Disconnect()
		deadline := time.Now().Add(5 * time.Second)
		for atomic.LoadInt32(&monitorsServed) == before || !c.Connected() {
			if time.Now().After(deadline) {
				t.Fatalf("client did not reconnect")
			}
			time.Sleep(5 * time.Millisecond)
		}
	}
	close(stop)
	wg.Wait()
	c.Close()
	// with -race the test is failed by the race detector:
	// "testing.go: race detected during execution of test"
}
