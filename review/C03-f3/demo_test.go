// Finding C03/3: 64-bit integers do not survive a transaction: every integer
// of an operation is decoded through float64.
//
// Where to put it: any new directory inside the libovsdb module, e.g.
// <repo>/findings/3/demo_test.go (package c03demo3). It only uses exported
// API (database/inmemory, server, client).
//
// How to run (no network needed, the end-to-end part uses a unix socket in a
// temporary directory):
//   export GOFLAGS=-mod=mod GOPROXY=off GOSUMDB=off GOTOOLCHAIN=local
//   go test ./findings/3/ -run TestInt64 -v
//
// RFC 7047, 3.2 / 5.1: an <integer> is "a JSON number with an integer value,
// within the range -(2**63)...+(2**63)-1"; the atomic type "integer" is a
// signed 64-bit integer. "insert" stores the values of "row", "update" replaces
// the named columns with them, a condition ["i","==",v] selects the rows whose
// i equals v.
//
// TestInt64Wire decodes the operations from JSON exactly as
// server.OvsdbServer.Transact does (json.Unmarshal into ovsdb.Operation),
// executes them with database.Transaction.Transact and commits when no
// operation failed. TestInt64ModelAPI goes through a real OvsdbServer and a
// real client with the model API (Create).
package c03demo3

import (
	"context"
	"encoding/json"
	"fmt"
	"math"
	"path/filepath"
	"testing"
	"time"

	"github.com/google/uuid"
	"github.com/ovn-org/libovsdb/client"
	"github.com/ovn-org/libovsdb/database"
	"github.com/ovn-org/libovsdb/database/inmemory"
	"github.com/ovn-org/libovsdb/model"
	"github.com/ovn-org/libovsdb/ovsdb"
	"github.com/ovn-org/libovsdb/server"
)

const schemaJSON = `{
 "name": "P", "version": "1.0.0",
 "tables": {
  "T": {
   "isRoot": true,
   "columns": {
    "name": {"type": "string"},
    "i":    {"type": "integer"},
    "si":   {"type": {"key": "integer", "min": 0, "max": "unlimited"}}
   }
  }
 }
}`

type T struct {
	UUID string `ovsdb:"_uuid"`
	Name string `ovsdb:"name"`
	I    int    `ovsdb:"i"`
	SI   []int  `ovsdb:"si"`
}

func newDB(t *testing.T) (database.Database, ovsdb.DatabaseSchema, model.ClientDBModel) {
	var schema ovsdb.DatabaseSchema
	if err := json.Unmarshal([]byte(schemaJSON), &schema); err != nil {
		t.Fatal(err)
	}
	cdb, err := model.NewClientDBModel("P", map[string]model.Model{"T": &T{}})
	if err != nil {
		t.Fatal(err)
	}
	db := inmemory.NewDatabase(map[string]model.ClientDBModel{"P": cdb})
	return db, schema, cdb
}

// transact does what server.OvsdbServer.Transact does with the "params" of a
// transact request
func transact(t *testing.T, db database.Database, opsJSON string) []*ovsdb.OperationResult {
	var raw []json.RawMessage
	if err := json.Unmarshal([]byte(opsJSON), &raw); err != nil {
		t.Fatal(err)
	}
	var ops []ovsdb.Operation
	for _, r := range raw {
		var op ovsdb.Operation
		if err := json.Unmarshal(r, &op); err != nil {
			t.Fatal(err)
		}
		ops = append(ops, op)
	}
	res, upd := db.NewTransaction("P").Transact(ops...)
	for _, r := range res {
		if r != nil && r.Error != "" {
			t.Fatalf("transaction %s failed: %s", opsJSON, show(res))
		}
	}
	if err := db.Commit("P", uuid.New(), upd); err != nil {
		t.Fatalf("commit: %v", err)
	}
	return res
}

func show(v interface{}) string {
	b, _ := json.Marshal(v)
	return string(b)
}

func rowByName(t *testing.T, db database.Database, name string) *T {
	all, err := db.List("P", "T")
	if err != nil {
		t.Fatal(err)
	}
	for _, m := range all {
		if r := m.(*T); r.Name == name {
			return r
		}
	}
	t.Fatalf("no row named %s", name)
	return nil
}

func TestInt64Wire(t *testing.T) {
	db, schema, _ := newDB(t)
	if err := db.CreateDatabase("P", schema); err != nil {
		t.Fatal(err)
	}

	// INT64_MAX
	transact(t, db, `[{"op":"insert","table":"T","row":{"name":"max","i":9223372036854775807}}]`)
	if got := rowByName(t, db, "max").I; got != math.MaxInt64 {
		t.Errorf("insert of i = 9223372036854775807 (INT64_MAX) stored i = %d", got)
	}

	// 2^53+1 and a set of two different integers
	transact(t, db, `[{"op":"insert","table":"T","row":{"name":"a","i":1,"si":["set",[9007199254740992,9007199254740993]]}}]`)
	transact(t, db, `[{"op":"update","table":"T","where":[["name","==","a"]],"row":{"i":9007199254740993}}]`)
	a := rowByName(t, db, "a")
	if a.I != 9007199254740993 {
		t.Errorf("update with i = 9007199254740993 stored i = %d", a.I)
	}
	if len(a.SI) != 2 || a.SI[0] == a.SI[1] {
		t.Errorf("insert of si = {9007199254740992, 9007199254740993} stored si = %v (a set holding the same element twice)", a.SI)
	}

	// a condition on the neighbouring value selects the row
	res := transact(t, db, `[{"op":"select","table":"T","where":[["i","==",9007199254740992]]}]`)
	if len(res[0].Rows) != 0 {
		t.Errorf("select where i == 9007199254740992 returned %s although no row was given that value (row a was given 9007199254740993)", show(res[0].Rows))
	}
}

func TestInt64ModelAPI(t *testing.T) {
	db, schema, cdb := newDB(t)
	dbModel, errs := model.NewDatabaseModel(schema, cdb)
	if len(errs) > 0 {
		t.Fatal(errs)
	}
	srv, err := server.NewOvsdbServer(db, dbModel)
	if err != nil {
		t.Fatal(err)
	}
	sock := filepath.Join(t.TempDir(), "db.sock")
	go func() { _ = srv.Serve("unix", sock) }()
	defer srv.Close()
	for i := 0; i < 200 && !srv.Ready(); i++ {
		time.Sleep(10 * time.Millisecond)
	}

	c, err := client.NewOVSDBClient(cdb, client.WithEndpoint(fmt.Sprintf("unix:%s", sock)))
	if err != nil {
		t.Fatal(err)
	}
	ctx, cancel := context.WithTimeout(context.Background(), 10*time.Second)
	defer cancel()
	if err := c.Connect(ctx); err != nil {
		t.Fatal(err)
	}
	defer c.Disconnect()
	if _, err := c.MonitorAll(ctx); err != nil {
		t.Fatal(err)
	}

	ops, err := c.Create(&T{Name: "max", I: math.MaxInt64})
	if err != nil {
		t.Fatal(err)
	}
	wire, _ := json.Marshal(ops)
	t.Logf("operations sent by the client: %s", wire)
	res, err := c.Transact(ctx, ops...)
	if err != nil {
		t.Fatal(err)
	}
	if _, err := ovsdb.CheckOperationResults(res, ops); err != nil {
		t.Fatal(err)
	}

	// what the database holds
	if got := rowByName(t, db, "max").I; got != math.MaxInt64 {
		t.Errorf("Create(&T{I: math.MaxInt64}) was accepted and the database holds i = %d", got)
	}
	// what the client sees
	var seen []T
	deadline := time.Now().Add(5 * time.Second)
	for time.Now().Before(deadline) {
		seen = nil
		if err := c.List(ctx, &seen); err == nil && len(seen) == 1 {
			break
		}
		time.Sleep(20 * time.Millisecond)
	}
	if len(seen) != 1 {
		t.Fatalf("the client never saw the row: %v", seen)
	}
	if seen[0].I != math.MaxInt64 {
		t.Errorf("Create(&T{I: math.MaxInt64}) shows up in the client's cache with i = %d", seen[0].I)
	}
}
