// Finding C03/2: weak references to garbage-collected rows survive when the
// rows are collected at different depths of a reference chain.
//
// Where to put it: any new directory inside the libovsdb module, e.g.
// <repo>/findings/2/demo_test.go (package c03demo2). It only uses exported
// API (database/inmemory, database.Transaction).
//
// How to run (no network needed):
//   export GOFLAGS=-mod=mod GOPROXY=off GOSUMDB=off GOTOOLCHAIN=local
//   go test ./findings/2/ -run TestWeakReferencesToChainOfCollectedRows -v -count=5
//
// The operations are decoded from JSON exactly as server.OvsdbServer.Transact
// does, executed with database.Transaction.Transact and committed with
// Database.Commit when no operation failed (as the server does).
//
// RFC 7047: rows of a table that is not part of the root set are deleted
// automatically when nothing references them strongly any more (3.2,
// "isRoot"); "weak": when a row is deleted, each weak reference to it is
// removed from the referring column ("refType"). After the "delete" below the
// database must therefore hold a single Root row "observer" whose weak column
// is the empty set.
package c03demo2

import (
	"encoding/json"
	"testing"

	"github.com/google/uuid"
	"github.com/ovn-org/libovsdb/database"
	"github.com/ovn-org/libovsdb/database/inmemory"
	"github.com/ovn-org/libovsdb/model"
	"github.com/ovn-org/libovsdb/ovsdb"
)

const schemaJSON = `{
 "name": "P", "version": "1.0.0",
 "tables": {
  "Root": {
   "isRoot": true,
   "columns": {
    "name":   {"type": "string"},
    "strong": {"type": {"key": {"type": "uuid", "refTable": "Node"}, "min": 0, "max": "unlimited"}},
    "weak":   {"type": {"key": {"type": "uuid", "refTable": "Node", "refType": "weak"}, "min": 0, "max": "unlimited"}}
   }
  },
  "Node": {
   "columns": {
    "name":  {"type": "string"},
    "child": {"type": {"key": {"type": "uuid", "refTable": "Node"}, "min": 0, "max": "unlimited"}}
   }
  }
 }
}`

type Root struct {
	UUID   string   `ovsdb:"_uuid"`
	Name   string   `ovsdb:"name"`
	Strong []string `ovsdb:"strong"`
	Weak   []string `ovsdb:"weak"`
}

type Node struct {
	UUID  string   `ovsdb:"_uuid"`
	Name  string   `ovsdb:"name"`
	Child []string `ovsdb:"child"`
}

func newDB(t *testing.T) database.Database {
	var schema ovsdb.DatabaseSchema
	if err := json.Unmarshal([]byte(schemaJSON), &schema); err != nil {
		t.Fatal(err)
	}
	cdb, err := model.NewClientDBModel("P", map[string]model.Model{"Root": &Root{}, "Node": &Node{}})
	if err != nil {
		t.Fatal(err)
	}
	db := inmemory.NewDatabase(map[string]model.ClientDBModel{"P": cdb})
	if err := db.CreateDatabase("P", schema); err != nil {
		t.Fatal(err)
	}
	return db
}

// transact does what server.OvsdbServer.Transact does with the "params" of a
// transact request
func transact(t *testing.T, db database.Database, opsJSON string) []*ovsdb.OperationResult {
	var raw []json.RawMessage
	if err := json.Unmarshal([]byte(opsJSON), &raw); err != nil {
		t.Fatal(err)
	}
	var ops []ovsdb.Operation
	for _, r := range raw {
		var op ovsdb.Operation
		if err := json.Unmarshal(r, &op); err != nil {
			t.Fatal(err)
		}
		ops = append(ops, op)
	}
	res, upd := db.NewTransaction("P").Transact(ops...)
	for _, r := range res {
		if r != nil && r.Error != "" {
			t.Fatalf("transaction %s failed: %s", opsJSON, show(res))
		}
	}
	if err := db.Commit("P", uuid.New(), upd); err != nil {
		t.Fatalf("commit: %v", err)
	}
	return res
}

func show(v interface{}) string {
	b, _ := json.Marshal(v)
	return string(b)
}

func TestWeakReferencesToChainOfCollectedRows(t *testing.T) {
	db := newDB(t)

	// holder --strong--> n1 --strong--> n2
	// observer --weak--> n1, n2
	res := transact(t, db, `[
	 {"op":"insert","table":"Node","uuid-name":"n2","row":{"name":"n2"}},
	 {"op":"insert","table":"Node","uuid-name":"n1","row":{"name":"n1","child":["set",[["named-uuid","n2"]]]}},
	 {"op":"insert","table":"Root","row":{"name":"holder","strong":["set",[["named-uuid","n1"]]]}},
	 {"op":"insert","table":"Root","row":{"name":"observer","weak":["set",[["named-uuid","n1"],["named-uuid","n2"]]]}}
	]`)
	n2, n1 := res[0].UUID.GoUUID, res[1].UUID.GoUUID
	t.Logf("n1 = %s, n2 = %s", n1, n2)

	nodes, _ := db.List("P", "Node")
	if len(nodes) != 2 {
		t.Fatalf("setup: expected 2 Node rows, got %s", show(nodes))
	}

	// deleting the holder leaves n1 unreferenced, collecting n1 leaves n2
	// unreferenced: both go, and with them the weak references to them
	res = transact(t, db, `[{"op":"delete","table":"Root","where":[["name","==","holder"]]}]`)
	t.Logf("delete holder: %s", show(res))

	nodes, _ = db.List("P", "Node")
	t.Logf("Node rows afterwards: %s", show(nodes))
	if len(nodes) != 0 {
		t.Fatalf("expected both Node rows to be garbage collected, got %s", show(nodes))
	}

	roots, _ := db.List("P", "Root")
	t.Logf("Root rows afterwards: %s", show(roots))
	if len(roots) != 1 {
		t.Fatalf("expected only the observer to be left, got %s", show(roots))
	}
	for _, m := range roots {
		observer := m.(*Root)
		for _, ref := range observer.Weak {
			which := "n1"
			if ref == n2 {
				which = "n2"
			}
			t.Errorf("observer.weak still holds %s (%s), a row that no longer exists: weak references to deleted rows must be removed (weak = %v)",
				ref, which, observer.Weak)
		}
	}
}
