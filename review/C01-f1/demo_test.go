// Demo for property C01 (a monitor-fed cache mirrors the database).
//
// A row whose weak references are pruned in two successive rounds of the
// garbage collection of one transaction: the database keeps a dangling weak
// reference, the update2 notifications say both references went away.
//
// How to run: copy this file into a NEW directory of the libovsdb module, e.g.
//   mkdir /tmp/bh-C01/c01demo1 && cp demo_test.go /tmp/bh-C01/c01demo1/
//   cd /tmp/bh-C01 && GOFLAGS=-mod=mod GOPROXY=off GOSUMDB=off GOTOOLCHAIN=local go test -count=1 ./c01demo1/
// It only uses the public API (in-memory database + server + client over a
// unix socket). The contents of the database are read straight from the
// in-memory database handle (database.Database.List), not over the wire.
// No interleaving is forced: everything is sequential.
package c01demo1

import (
	"context"
	"encoding/json"
	"fmt"
	"os"
	"sort"
	"testing"
	"time"

	"github.com/ovn-org/libovsdb/client"
	"github.com/ovn-org/libovsdb/database/inmemory"
	"github.com/ovn-org/libovsdb/model"
	"github.com/ovn-org/libovsdb/ovsdb"
	"github.com/ovn-org/libovsdb/server"
)

const schemaJSON = `{
 "name": "T", "version": "0.0.1",
 "tables": {
  "Root": {
    "isRoot": true,
    "columns": {
      "name": {"type": "string"},
      "head": {"type": {"key": {"type":"uuid","refTable":"Node"}, "min":0, "max":1}},
      "wrefs": {"type": {"key": {"type":"uuid","refTable":"Node","refType":"weak"}, "min":0, "max":"unlimited"}}
    }
  },
  "Node": {
    "columns": {
      "name": {"type":"string"},
      "next": {"type": {"key": {"type":"uuid","refTable":"Node"}, "min":0, "max":1}}
    }
  }
 }
}`

type Root struct {
	UUID  string   `ovsdb:"_uuid"`
	Name  string   `ovsdb:"name"`
	Head  *string  `ovsdb:"head"`
	WRefs []string `ovsdb:"wrefs"`
}

type Node struct {
	UUID string  `ovsdb:"_uuid"`
	Name string  `ovsdb:"name"`
	Next *string `ovsdb:"next"`
}

func TestWeakReferencesPrunedInTwoRounds(t *testing.T) {
	var schema ovsdb.DatabaseSchema
	if err := json.Unmarshal([]byte(schemaJSON), &schema); err != nil {
		t.Fatal(err)
	}
	cdb, err := model.NewClientDBModel("T", map[string]model.Model{"Root": &Root{}, "Node": &Node{}})
	if err != nil {
		t.Fatal(err)
	}
	db := inmemory.NewDatabase(map[string]model.ClientDBModel{"T": cdb})
	dbModel, errs := model.NewDatabaseModel(schema, cdb)
	if len(errs) > 0 {
		t.Fatal(errs)
	}
	srv, err := server.NewOvsdbServer(db, dbModel)
	if err != nil {
		t.Fatal(err)
	}
	sock := fmt.Sprintf("/tmp/c01demo1-%d-%d.sock", os.Getpid(), time.Now().UnixNano())
	go func() { _ = srv.Serve("unix", sock) }()
	defer func() { srv.Close(); os.Remove(sock) }()
	for i := 0; i < 400 && !srv.Ready(); i++ {
		time.Sleep(5 * time.Millisecond)
	}

	newClient := func(method string) client.Client {
		c, err := client.NewOVSDBClient(cdb, client.WithEndpoint("unix:"+sock))
		if err != nil {
			t.Fatal(err)
		}
		if err := c.Connect(context.Background()); err != nil {
			t.Fatal(err)
		}
		if method != "" {
			m := c.NewMonitor(client.WithTable(&Root{}), client.WithTable(&Node{}))
			m.Method = method
			if _, err := c.Monitor(context.Background(), m); err != nil {
				t.Fatal(err)
			}
		}
		return c
	}
	transact := func(c client.Client, ops ...ovsdb.Operation) {
		res, err := c.Transact(context.Background(), ops...)
		if err != nil {
			t.Fatal(err)
		}
		if _, err := ovsdb.CheckOperationResults(res, ops); err != nil {
			t.Fatalf("%v: %+v", err, res)
		}
	}

	methods := []string{ovsdb.MonitorRPC, ovsdb.ConditionalMonitorRPC, ovsdb.ConditionalMonitorSinceRPC}
	writer := newClient("")
	defer writer.Close()
	monitors := map[string]client.Client{}
	for _, m := range methods {
		monitors[m] = newClient(m)
		defer monitors[m].Close()
	}

	// Node is not a root table. p -> x -> y are strong references, r holds
	// weak references to x and to y.
	named := func(n string) ovsdb.OvsSet { return ovsdb.OvsSet{GoSet: []interface{}{ovsdb.UUID{GoUUID: n}}} }
	transact(writer,
		ovsdb.Operation{Op: "insert", Table: "Node", UUIDName: "y", Row: ovsdb.Row{"name": "y"}},
		ovsdb.Operation{Op: "insert", Table: "Node", UUIDName: "x", Row: ovsdb.Row{"name": "x", "next": named("y")}},
		ovsdb.Operation{Op: "insert", Table: "Root", Row: ovsdb.Row{"name": "p", "head": named("x")}},
		ovsdb.Operation{Op: "insert", Table: "Root", Row: ovsdb.Row{"name": "r",
			"wrefs": ovsdb.OvsSet{GoSet: []interface{}{ovsdb.UUID{GoUUID: "x"}, ovsdb.UUID{GoUUID: "y"}}}}},
	)

	// Deleting p leaves x unreferenced (first round of garbage collection),
	// which in turn leaves y unreferenced (second round). Both weak
	// references of r have to go (RFC 7047, 3.2, refType weak).
	transact(writer, ovsdb.Operation{Op: "delete", Table: "Root",
		Where: []ovsdb.Condition{ovsdb.NewCondition("name", ovsdb.ConditionEqual, "p")}})
	// the server notifies every monitor (and waits for its answer) before it
	// answers the transaction; the sleep is just for good measure
	time.Sleep(200 * time.Millisecond)

	nodes, err := db.List("T", "Node")
	if err != nil {
		t.Fatal(err)
	}
	t.Logf("database holds %d Node rows", len(nodes))
	roots, err := db.List("T", "Root")
	if err != nil {
		t.Fatal(err)
	}
	if len(roots) != 1 {
		t.Fatalf("expected one Root row, the database holds %d", len(roots))
	}
	for uuid, row := range roots {
		inDB := append([]string{}, row.(*Root).WRefs...)
		sort.Strings(inDB)
		t.Logf("database: Root %s (%s) wrefs=%v", uuid, row.(*Root).Name, inDB)
		for _, m := range methods {
			cached := monitors[m].Cache().Table("Root").Row(uuid)
			if cached == nil {
				t.Errorf("%s: row %s is not in the cache", m, uuid)
				continue
			}
			inCache := append([]string{}, cached.(*Root).WRefs...)
			sort.Strings(inCache)
			if fmt.Sprint(inCache) != fmt.Sprint(inDB) {
				t.Errorf("%s: cache does not mirror the database: Root %s wrefs: database %v, cache %v", m, uuid, inDB, inCache)
			}
		}
		if len(inDB) != 0 {
			t.Errorf("database: Root %s keeps weak references %v to rows that no longer exist", uuid, inDB)
		}
	}
}
