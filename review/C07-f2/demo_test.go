// Finding C07-2: a monitor request that leaves out "columns" (RFC 7047 4.1.5:
// "If 'columns' is omitted, all columns in the table, except for '_uuid', are
// monitored") gets the full rows in the reply to "monitor"/"monitor_cond", but
// every later notification is stripped of all columns: inserts arrive as empty
// rows, modifications as an empty "modify" (update2) or identical old/new rows
// holding only _uuid (update). The change made by the transaction is lost.
//
// Where to put it / how to run (unmodified tree):
//
//	cp findings/2/demo_test.go server/c07_2_demo_test.go     (package server)
//	export GOFLAGS=-mod=mod GOPROXY=off GOSUMDB=off GOTOOLCHAIN=local
//	go test ./server/ -run TestC07_2 -count=1
//
// End to end: a real OvsdbServer on a unix socket and a plain JSON-RPC peer
// (cenkalti/rpc2, the transport the library itself uses) that records every
// "update"/"update2" request it receives. The server sends notifications with
// a synchronous call before it answers "transact", so once "transact" has
// returned all notifications of that transaction have been recorded.
package server

import (
	"encoding/json"
	"fmt"
	"net"
	"os"
	"path/filepath"
	"sync"
	"testing"
	"time"

	"github.com/cenkalti/rpc2"
	"github.com/cenkalti/rpc2/jsonrpc"
	"github.com/ovn-org/libovsdb/database/inmemory"
	"github.com/ovn-org/libovsdb/model"
	"github.com/ovn-org/libovsdb/ovsdb"
)

const c07bSchema = `{
  "name": "DB_A", "version": "1.0.0",
  "tables": {
    "T": {
      "isRoot": true,
      "columns": {
        "name": {"type": "string"},
        "note": {"type": "string"},
        "tags": {"type": {"key": "string", "value": "string", "min": 0, "max": "unlimited"}}
      }
    }
  }
}`

type c07bT struct {
	UUID string            `ovsdb:"_uuid"`
	Name string            `ovsdb:"name"`
	Note string            `ovsdb:"note"`
	Tags map[string]string `ovsdb:"tags"`
}

type c07bPeer struct {
	c    *rpc2.Client
	mu   sync.Mutex
	seen []string // "<method> <params>"
}

func (p *c07bPeer) take() []string {
	p.mu.Lock()
	defer p.mu.Unlock()
	s := p.seen
	p.seen = nil
	return s
}

func c07bStart(t *testing.T) (*c07bPeer, func()) {
	var schema ovsdb.DatabaseSchema
	if err := json.Unmarshal([]byte(c07bSchema), &schema); err != nil {
		t.Fatal(err)
	}
	cm, err := model.NewClientDBModel("DB_A", map[string]model.Model{"T": &c07bT{}})
	if err != nil {
		t.Fatal(err)
	}
	dbModel, errs := model.NewDatabaseModel(schema, cm)
	if len(errs) > 0 {
		t.Fatal(errs)
	}
	srv, err := NewOvsdbServer(inmemory.NewDatabase(map[string]model.ClientDBModel{"DB_A": cm}), dbModel)
	if err != nil {
		t.Fatal(err)
	}
	dir, err := os.MkdirTemp("", "c07b")
	if err != nil {
		t.Fatal(err)
	}
	sock := filepath.Join(dir, "db.sock")
	go func() { _ = srv.Serve("unix", sock) }()
	deadline := time.Now().Add(5 * time.Second)
	for !srv.Ready() {
		if time.Now().After(deadline) {
			t.Fatal("server not ready")
		}
		time.Sleep(5 * time.Millisecond)
	}
	conn, err := net.Dial("unix", sock)
	if err != nil {
		t.Fatal(err)
	}
	p := &c07bPeer{c: rpc2.NewClientWithCodec(jsonrpc.NewJSONCodec(conn))}
	for _, method := range []string{"update", "update2"} {
		method := method
		p.c.Handle(method, func(_ *rpc2.Client, params []json.RawMessage, reply *[]interface{}) error {
			b, _ := json.Marshal(params)
			p.mu.Lock()
			p.seen = append(p.seen, method+" "+string(b))
			p.mu.Unlock()
			*reply = []interface{}{}
			return nil
		})
	}
	go p.c.Run()
	return p, func() { p.c.Close(); srv.Close(); os.RemoveAll(dir) }
}

func (p *c07bPeer) call(t *testing.T, method string, args ...interface{}) json.RawMessage {
	var reply json.RawMessage
	if err := p.c.Call(method, args, &reply); err != nil {
		t.Fatalf("%s: %v", method, err)
	}
	return reply
}

func (p *c07bPeer) transact(t *testing.T, ops ...ovsdb.Operation) {
	args := []interface{}{"DB_A"}
	for _, op := range ops {
		args = append(args, op)
	}
	var results []ovsdb.OperationResult
	if err := json.Unmarshal(p.call(t, "transact", args...), &results); err != nil {
		t.Fatal(err)
	}
	for _, r := range results {
		if r.Error != "" {
			t.Fatalf("transaction failed: %s (%s)", r.Error, r.Details)
		}
	}
}

func TestC07_2_OmittedColumnsMeansAllColumns(t *testing.T) {
	p, stop := c07bStart(t)
	defer stop()

	p.transact(t, ovsdb.Operation{Op: ovsdb.OperationInsert, Table: "T",
		Row: ovsdb.Row{"name": "row1", "note": "x"}})

	// "columns" omitted: all columns of T are monitored
	req := map[string]interface{}{"T": map[string]interface{}{}}
	initial1 := p.call(t, "monitor", "DB_A", "rfc7047-monitor", req)
	initial2 := p.call(t, "monitor_cond", "DB_A", "update2-monitor", req)
	fmt.Println("reply to monitor:     ", string(initial1))
	fmt.Println("reply to monitor_cond:", string(initial2))
	// the server itself reads the request as "all columns": the initial
	// contents carry name and note
	var tu ovsdb.TableUpdates
	if err := json.Unmarshal(initial1, &tu); err != nil {
		t.Fatal(err)
	}
	for _, ru := range tu["T"] {
		if (*ru.New)["name"] != "row1" || (*ru.New)["note"] != "x" {
			t.Fatalf("unexpected initial row %v", *ru.New)
		}
	}

	// one transaction: insert row2, change the note of row1
	p.transact(t,
		ovsdb.Operation{Op: ovsdb.OperationInsert, Table: "T", Row: ovsdb.Row{"name": "row2", "note": "z"}},
		ovsdb.Operation{Op: ovsdb.OperationUpdate, Table: "T",
			Where: []ovsdb.Condition{ovsdb.NewCondition("name", ovsdb.ConditionEqual, "row1")},
			Row:   ovsdb.Row{"note": "y"}})

	got := p.take()
	if len(got) != 2 {
		t.Fatalf("expected one notification per monitor, got %v", got)
	}
	failed := false
	for _, n := range got {
		fmt.Println("notification:", n)
	}
	for _, n := range got {
		var params []json.RawMessage
		raw := n[len("update "):]
		if n[:7] == "update2" {
			raw = n[len("update2 "):]
		}
		if err := json.Unmarshal([]byte(raw), &params); err != nil {
			t.Fatal(err)
		}
		if n[:7] == "update2" {
			var tu2 ovsdb.TableUpdates2
			if err := json.Unmarshal(params[1], &tu2); err != nil {
				t.Fatal(err)
			}
			var sawInsert, sawModify bool
			for _, ru := range tu2["T"] {
				if ru.Insert != nil && (*ru.Insert)["name"] == "row2" && (*ru.Insert)["note"] == "z" {
					sawInsert = true
				}
				if ru.Modify != nil && (*ru.Modify)["note"] == "y" {
					sawModify = true
				}
			}
			if !sawInsert || !sawModify {
				t.Errorf("update2: inserted row {name:row2 note:z} reported: %v, note changed to y reported: %v", sawInsert, sawModify)
				failed = true
			}
		} else {
			var tu1 ovsdb.TableUpdates
			if err := json.Unmarshal(params[1], &tu1); err != nil {
				t.Fatal(err)
			}
			var sawInsert, sawModify bool
			for _, ru := range tu1["T"] {
				if ru.Old == nil && ru.New != nil && (*ru.New)["name"] == "row2" && (*ru.New)["note"] == "z" {
					sawInsert = true
				}
				if ru.Old != nil && ru.New != nil && (*ru.Old)["note"] == "x" && (*ru.New)["note"] == "y" {
					sawModify = true
				}
			}
			if !sawInsert || !sawModify {
				t.Errorf("update: inserted row {name:row2 note:z} reported: %v, note changed x->y reported: %v", sawInsert, sawModify)
				failed = true
			}
		}
	}
	if failed {
		t.Fatalf("all columns are monitored, but the notifications carry none of them")
	}
}
