// C18 finding 1: a Monitor call that failed on the client side (context
// expired while the server was still working on it) leaves a "zombie" monitor
// on the server. The first update3 notification the server later sends for that
// monitor makes the client's rpc read loop dereference a nil *Monitor
// (client.go: update3, `mon := db.monitors[cookie.ID]; mon.LastTransactionID = ...`)
// and the whole process dies with a nil pointer panic.
//
// Copy this file to   client/c18_f1_demo_test.go   (package client) and run
//
//	export GOFLAGS=-mod=mod GOPROXY=off GOSUMDB=off GOTOOLCHAIN=local
//	go test ./client/ -run TestC18F1 -count=1
//
// The test is self-contained: it brings its own tiny schema, models and a
// hand-written OVSDB server (plain JSON-RPC over a unix socket) that behaves
// like a real ovsdb-server: it answers monitor_cond_since and sends "update3"
// notifications for such monitors (the in-tree test server never sends
// update3). The only "pinned" ordering is that the server answers the second
// monitor request late, i.e. after the context of the client's Monitor call
// has expired - which is what a loaded ovsdb-server with a big database does.
// No library internals are touched.
package client

import (
	"context"
	"encoding/json"
	"net"
	"path/filepath"
	"sync"
	"testing"
	"time"

	"github.com/ovn-org/libovsdb/model"
)

const c18f1Schema = `{
  "name": "C18DB",
  "version": "1.0.0",
  "tables": {
    "T1": {"columns": {"name": {"type": "string"}}, "isRoot": true},
    "T2": {"columns": {"name": {"type": "string"}}, "isRoot": true}
  }
}`

type c18f1T1 struct {
	UUID string `ovsdb:"_uuid"`
	Name string `ovsdb:"name"`
}

type c18f1T2 struct {
	UUID string `ovsdb:"_uuid"`
	Name string `ovsdb:"name"`
}

type c18f1Msg struct {
	Method string            `json:"method"`
	Params []json.RawMessage `json:"params"`
	ID     json.RawMessage   `json:"id"`
}

// c18f1Server is a minimal OVSDB server for one connection at a time.
type c18f1Server struct {
	t  *testing.T
	ln net.Listener

	mu       sync.Mutex
	enc      *json.Encoder
	monitors int

	// the second monitor request is answered only when releaseSecond is closed
	secondSeen    chan struct{}
	releaseSecond chan struct{}
	secondDone    chan struct{}
}

func (s *c18f1Server) send(v interface{}) {
	s.mu.Lock()
	defer s.mu.Unlock()
	_ = s.enc.Encode(v)
}

func (s *c18f1Server) reply(id json.RawMessage, result interface{}) {
	s.send(map[string]interface{}{"id": id, "result": result, "error": nil})
}

func (s *c18f1Server) serve(conn net.Conn) {
	s.mu.Lock()
	s.enc = json.NewEncoder(conn)
	s.mu.Unlock()
	dec := json.NewDecoder(conn)
	emptyReply := []interface{}{false, "00000000-0000-0000-0000-000000000000", map[string]interface{}{}}
	for {
		var m c18f1Msg
		if err := dec.Decode(&m); err != nil {
			return
		}
		switch m.Method {
		case "list_dbs":
			s.reply(m.ID, []string{"C18DB"})
		case "get_schema":
			s.reply(m.ID, json.RawMessage(c18f1Schema))
		case "echo":
			s.reply(m.ID, m.Params)
		case "monitor_cond_since":
			s.mu.Lock()
			s.monitors++
			n := s.monitors
			s.mu.Unlock()
			if n == 1 {
				// first monitor (table T1): answered at once, nothing in the table
				s.reply(m.ID, emptyReply)
				continue
			}
			// second monitor (table T2): the server is slow. It answers
			// (successfully!) only after the client gave up waiting, and
			// from then on it notifies the client of changes, as it must.
			id, cookie := m.ID, m.Params[1]
			close(s.secondSeen)
			go func() {
				<-s.releaseSecond
				s.reply(id, emptyReply)
				// a row is inserted into T2 by somebody: update3 notification
				s.send(map[string]interface{}{
					"method": "update3",
					"id":     nil,
					"params": []interface{}{
						cookie,
						"11111111-1111-1111-1111-111111111111",
						map[string]interface{}{
							"T2": map[string]interface{}{
								"22222222-2222-2222-2222-222222222222": map[string]interface{}{
									"insert": map[string]interface{}{"name": "row-in-T2"},
								},
							},
						},
					},
				})
				close(s.secondDone)
			}()
		default:
			s.send(map[string]interface{}{"id": m.ID, "result": nil, "error": "unknown method"})
		}
	}
}

func TestC18F1MonitorTimeoutThenUpdate3CrashesClient(t *testing.T) {
	sock := filepath.Join(t.TempDir(), "c18f1.sock")
	ln, err := net.Listen("unix", sock)
	if err != nil {
		t.Fatal(err)
	}
	defer ln.Close()
	srv := &c18f1Server{
		t: t, ln: ln,
		secondSeen:    make(chan struct{}),
		releaseSecond: make(chan struct{}),
		secondDone:    make(chan struct{}),
	}
	go func() {
		for {
			conn, err := ln.Accept()
			if err != nil {
				return
			}
			go srv.serve(conn)
		}
	}()

	dbModel, err := model.NewClientDBModel("C18DB", map[string]model.Model{
		"T1": &c18f1T1{},
		"T2": &c18f1T2{},
	})
	if err != nil {
		t.Fatal(err)
	}
	c, err := NewOVSDBClient(dbModel, WithEndpoint("unix:"+sock))
	if err != nil {
		t.Fatal(err)
	}
	if err := c.Connect(context.Background()); err != nil {
		t.Fatal(err)
	}

	// 1. a first monitor, set up without any trouble
	if _, err := c.Monitor(context.Background(), c.NewMonitor(WithTable(&c18f1T1{}))); err != nil {
		t.Fatalf("first monitor: %v", err)
	}

	// 2. a second monitor; the server is slow and the caller's context expires
	ctx, cancel := context.WithTimeout(context.Background(), 200*time.Millisecond)
	_, err = c.Monitor(ctx, c.NewMonitor(WithTable(&c18f1T2{})))
	cancel()
	if err == nil {
		t.Fatalf("expected the second Monitor call to fail with its context")
	}
	t.Logf("second Monitor call failed as intended: %v", err)
	<-srv.secondSeen

	// 3. the server finishes the monitor request and, later, reports a change
	close(srv.releaseSecond)
	<-srv.secondDone

	// 4. the client must survive that: every further call returns
	//    (on HEAD the process has panicked in update3 by now)
	time.Sleep(500 * time.Millisecond)
	ectx, ecancel := context.WithTimeout(context.Background(), 2*time.Second)
	defer ecancel()
	if err := c.Echo(ectx); err != nil {
		t.Fatalf("Echo after the failed Monitor: %v", err)
	}
	var rows []c18f1T2
	if err := c.List(ectx, &rows); err != nil {
		t.Fatalf("List after the failed Monitor: %v", err)
	}
	t.Logf("client survived; T2 rows in cache: %+v", rows)
	c.Close()
}
