// Finding C16/3: an update3 notification that is deferred while an ADDITIONAL
// Monitor call is being set up is applied to the cache afterwards, but its
// transaction id is not recorded for the monitor it belongs to: the deferred
// update does not remember its cookie, applyDeferredUpdates() credits the id to
// the monitor being set up - or to nobody when that Monitor call fails (server
// error, context expired). The existing monitor keeps a last-txn-id that is
// older than its cache. At the next connection loss it offers that stale id,
// the server answers found=true with the changes since then, and the client
// applies a change a second time (update2 "modify" of a set = elements to
// toggle): the cache silently diverges from the database although the client
// reports being connected.
//
// Where to put it / how to run (self-contained, public API only; it brings its
// own tiny schema and a small scripted OVSDB server that follows
// ovsdb-server(7) for monitor_cond_since / update3 and keeps a transaction
// history, like ovsdb-server does):
//
//	mkdir -p <libovsdb>/c16demo3 && cp demo_test.go <libovsdb>/c16demo3/
//	cd <libovsdb> && GOFLAGS=-mod=mod GOPROXY=off GOSUMDB=off GOTOOLCHAIN=local \
//	    go test ./c16demo3/ -run TestDeferredUpdate3LosesItsTransactionID -count=1 -v
//
// The subtest control_update_before_monitor_call passes, update_during_monitor_call fails.
//
// (inside the review worktree it can be run in place: go test ./findings/3/ ...)
//
// Interleaving used (arranged on the SERVER side only, nothing inside the
// library is forced): a transaction of another client is committed after the
// server has received the second monitor request and before it answers it, so
// the update3 for the first monitor is on the wire before the (error) reply.
package c16demo3

import (
	"context"
	"encoding/json"
	"fmt"
	"net"
	"os"
	"path/filepath"
	"sort"
	"sync"
	"testing"
	"time"

	"github.com/cenkalti/backoff/v4"
	"github.com/cenkalti/rpc2"
	"github.com/cenkalti/rpc2/jsonrpc"
	"github.com/go-logr/logr"
	"github.com/google/uuid"
	"github.com/ovn-org/libovsdb/client"
	"github.com/ovn-org/libovsdb/model"
	"github.com/ovn-org/libovsdb/ovsdb"
)

const zeroUUID = "00000000-0000-0000-0000-000000000000"

const schemaJSON = `{
  "name": "DB", "version": "1.0.0",
  "tables": {
    "T": {
      "isRoot": true,
      "columns": {
        "name": {"type": "string"},
        "tags": {"type": {"key": {"type": "string"}, "min": 0, "max": "unlimited"}}
      }
    }
  }
}`

type T struct {
	UUID string   `ovsdb:"_uuid"`
	Name string   `ovsdb:"name"`
	Tags []string `ovsdb:"tags"`
}

// ---------------------------------------------------------------------------
// the database behind the scripted server

type row struct {
	name string
	tags map[string]bool
}

func (r row) clone() row {
	c := row{name: r.name, tags: map[string]bool{}}
	for k := range r.tags {
		c.tags[k] = true
	}
	return c
}

func (r row) ovs() *ovsdb.Row {
	tags := []string{}
	for k := range r.tags {
		tags = append(tags, k)
	}
	sort.Strings(tags)
	set, _ := ovsdb.NewOvsSet(tags)
	return &ovsdb.Row{"name": r.name, "tags": set}
}

type snapshot struct {
	txn  string
	rows map[string]row
}

type sharedDB struct {
	mu      sync.Mutex
	rows    map[string]row
	history []snapshot // state after each committed transaction
	servers []*fakeServer
}

func (d *sharedDB) copyRows() map[string]row {
	c := map[string]row{}
	for k, v := range d.rows {
		c[k] = v.clone()
	}
	return c
}

func (d *sharedDB) lastTxn() string {
	if len(d.history) == 0 {
		return zeroUUID
	}
	return d.history[len(d.history)-1].txn
}

// diff renders the changes from -> to in update2 notation (ovsdb-server(7)):
// "insert" whole row, "delete", "modify" with, for a set column, the elements
// that have to be added or removed.
func diff(from, to map[string]row) ovsdb.TableUpdates2 {
	tu := ovsdb.TableUpdate2{}
	for id, n := range to {
		o, ok := from[id]
		if !ok {
			tu[id] = &ovsdb.RowUpdate2{Insert: n.ovs()}
			continue
		}
		mod := ovsdb.Row{}
		if o.name != n.name {
			mod["name"] = n.name
		}
		toggled := []string{}
		for k := range n.tags {
			if !o.tags[k] {
				toggled = append(toggled, k)
			}
		}
		for k := range o.tags {
			if !n.tags[k] {
				toggled = append(toggled, k)
			}
		}
		if len(toggled) > 0 {
			sort.Strings(toggled)
			set, _ := ovsdb.NewOvsSet(toggled)
			mod["tags"] = set
		}
		if len(mod) > 0 {
			tu[id] = &ovsdb.RowUpdate2{Modify: &mod}
		}
	}
	for id := range from {
		if _, ok := to[id]; !ok {
			tu[id] = &ovsdb.RowUpdate2{Delete: &ovsdb.Row{}}
		}
	}
	if len(tu) == 0 {
		return ovsdb.TableUpdates2{}
	}
	return ovsdb.TableUpdates2{"T": tu}
}

// commit applies a change as one transaction and notifies every monitor
func (d *sharedDB) commit(change func(rows map[string]row)) string {
	d.mu.Lock()
	defer d.mu.Unlock()
	before := d.copyRows()
	change(d.rows)
	txn := uuid.NewString()
	d.history = append(d.history, snapshot{txn: txn, rows: d.copyRows()})
	upd := diff(before, d.rows)
	for _, s := range d.servers {
		s.notify(txn, upd)
	}
	return txn
}

// ---------------------------------------------------------------------------
// the scripted server

type fakeServer struct {
	name        string
	db          *sharedDB
	keepHistory bool
	sock        string
	lis         net.Listener

	mu       sync.Mutex
	conns    []net.Conn
	monitors map[*rpc2.Client][]json.RawMessage // cookies
	log      []string                           // monitor_cond_since requests / replies

	// run (once) when the next monitor request arrives; a non-nil error is
	// the answer to that request
	onNextMonitor func() error
}

func newFakeServer(t *testing.T, name string, db *sharedDB, keepHistory bool) *fakeServer {
	s := &fakeServer{name: name, db: db, keepHistory: keepHistory,
		sock:     filepath.Join(t.TempDir(), name+".sock"),
		monitors: map[*rpc2.Client][]json.RawMessage{}}
	db.servers = append(db.servers, s)
	s.listen(t)
	return s
}

func (s *fakeServer) listen(t *testing.T) {
	os.Remove(s.sock)
	lis, err := net.Listen("unix", s.sock)
	if err != nil {
		t.Fatal(err)
	}
	s.lis = lis
	srv := rpc2.NewServer()
	srv.Handle("list_dbs", func(_ *rpc2.Client, _ []interface{}, reply *[]string) error {
		*reply = []string{"DB"}
		return nil
	})
	srv.Handle("get_schema", func(_ *rpc2.Client, _ []interface{}, reply *json.RawMessage) error {
		*reply = json.RawMessage(schemaJSON)
		return nil
	})
	srv.Handle("echo", func(_ *rpc2.Client, args []interface{}, reply *[]interface{}) error {
		*reply = args
		return nil
	})
	srv.Handle("monitor_cond_since", s.monitorCondSince)
	srv.OnDisconnect(func(c *rpc2.Client) {
		s.mu.Lock()
		delete(s.monitors, c)
		s.mu.Unlock()
	})
	go func() {
		for {
			conn, err := lis.Accept()
			if err != nil {
				return
			}
			s.mu.Lock()
			s.conns = append(s.conns, conn)
			s.mu.Unlock()
			go srv.ServeCodec(jsonrpc.NewJSONCodec(conn))
		}
	}()
}

// monitor_cond_since as specified in ovsdb-server(7), 4.1.15
func (s *fakeServer) monitorCondSince(c *rpc2.Client, args []json.RawMessage, reply *ovsdb.MonitorCondSinceReply) error {
	var since string
	if err := json.Unmarshal(args[3], &since); err != nil {
		return err
	}
	s.mu.Lock()
	hook := s.onNextMonitor
	s.onNextMonitor = nil
	s.mu.Unlock()
	if hook != nil {
		if err := hook(); err != nil {
			s.mu.Lock()
			s.log = append(s.log, fmt.Sprintf("%s: monitor_cond_since(last-txn-id=%s) -> error: %v", s.name, short(since), err))
			s.mu.Unlock()
			return err
		}
	}
	s.db.mu.Lock()
	defer s.db.mu.Unlock()
	var base map[string]row
	found := false
	if s.keepHistory {
		for _, h := range s.db.history {
			if h.txn == since {
				found, base = true, h.rows
			}
		}
	}
	if found {
		// only the changes made after <since>
		*reply = ovsdb.MonitorCondSinceReply{Found: true, LastTransactionID: s.db.lastTxn(), Updates: diff(base, s.db.rows)}
	} else {
		// everything, as "initial" rows
		tu := ovsdb.TableUpdate2{}
		for id, r := range s.db.rows {
			tu[id] = &ovsdb.RowUpdate2{Initial: r.ovs()}
		}
		*reply = ovsdb.MonitorCondSinceReply{Found: false, LastTransactionID: s.db.lastTxn(), Updates: ovsdb.TableUpdates2{"T": tu}}
	}
	s.mu.Lock()
	s.monitors[c] = append(s.monitors[c], args[1])
	s.log = append(s.log, fmt.Sprintf("%s: monitor_cond_since(last-txn-id=%s) -> found=%v last-txn-id=%s",
		s.name, short(since), reply.Found, short(reply.LastTransactionID)))
	s.mu.Unlock()
	return nil
}

func (s *fakeServer) notify(txn string, upd ovsdb.TableUpdates2) {
	s.mu.Lock()
	defer s.mu.Unlock()
	for c, cookies := range s.monitors {
		for _, cookie := range cookies {
			_ = c.Notify("update3", []interface{}{cookie, txn, upd})
		}
	}
}

// stop closes the listener and resets every connection
func (s *fakeServer) stop() {
	s.lis.Close()
	s.cut()
}

func (s *fakeServer) cut() {
	s.mu.Lock()
	defer s.mu.Unlock()
	for _, c := range s.conns {
		c.Close()
	}
	s.conns = nil
}

func short(id string) string {
	if id == zeroUUID {
		return "zero"
	}
	return id[:8]
}

// ---------------------------------------------------------------------------

func cacheTags(c client.Client, id string) ([]string, bool) {
	m := c.Cache().Table("T").Row(id)
	if m == nil {
		return nil, false
	}
	tags := append([]string{}, m.(*T).Tags...)
	sort.Strings(tags)
	return tags, true
}

func dbTags(db *sharedDB, id string) []string {
	db.mu.Lock()
	defer db.mu.Unlock()
	tags := []string{}
	for k := range db.rows[id].tags {
		tags = append(tags, k)
	}
	sort.Strings(tags)
	return tags
}

func waitFor(t *testing.T, what string, cond func() bool) {
	t.Helper()
	deadline := time.Now().Add(5 * time.Second)
	for time.Now().Before(deadline) {
		if cond() {
			return
		}
		time.Sleep(10 * time.Millisecond)
	}
	t.Fatalf("timed out waiting for: %s", what)
}

func TestDeferredUpdate3LosesItsTransactionID(t *testing.T) {
	// control: the other client's transaction is committed just BEFORE the
	// failing Monitor call instead of while it is in progress - fine
	t.Run("control_update_before_monitor_call", func(t *testing.T) { run(t, false) })
	// failing case
	t.Run("update_during_monitor_call", func(t *testing.T) { run(t, true) })
}

func run(t *testing.T, during bool) {
	db := &sharedDB{rows: map[string]row{}}
	srv := newFakeServer(t, "S", db, true) // one server, keeps its history

	rowID := uuid.NewString()
	db.commit(func(rows map[string]row) { rows[rowID] = row{name: "r", tags: map[string]bool{"a": true}} })

	dbModel, err := model.NewClientDBModel("DB", map[string]model.Model{"T": &T{}})
	if err != nil {
		t.Fatal(err)
	}
	quiet := logr.Discard()
	c, err := client.NewOVSDBClient(dbModel,
		client.WithEndpoint("unix:"+srv.sock),
		client.WithReconnect(2*time.Second, backoff.NewConstantBackOff(20*time.Millisecond)),
		client.WithLogger(&quiet))
	if err != nil {
		t.Fatal(err)
	}
	if err := c.Connect(context.Background()); err != nil {
		t.Fatal(err)
	}
	defer c.Close()
	// the one and only monitor, default method (monitor_cond_since)
	if _, err := c.Monitor(context.Background(), c.NewMonitor(client.WithTable(&T{}))); err != nil {
		t.Fatal(err)
	}
	sessions := func() int {
		srv.mu.Lock()
		defer srv.mu.Unlock()
		return len(srv.log)
	}

	// T1: an ordinary update3, the monitor's last transaction id becomes T1
	db.commit(func(rows map[string]row) { rows[rowID].tags["b"] = true })
	waitFor(t, "update3 of T1 applied", func() bool {
		tags, _ := cacheTags(c, rowID)
		return fmt.Sprint(tags) == "[a b]"
	})

	// A second Monitor call that the server turns down. Between receiving the
	// request and answering it the server commits T2 (another client's
	// transaction) and notifies the first monitor.
	t2 := func() { db.commit(func(rows map[string]row) { rows[rowID].tags["x"] = true }) }
	if !during {
		t2()
		waitFor(t, "update3 of T2 applied", func() bool {
			tags, _ := cacheTags(c, rowID)
			return fmt.Sprint(tags) == "[a b x]"
		})
	}
	srv.mu.Lock()
	srv.onNextMonitor = func() error {
		if during {
			t2()
		}
		return fmt.Errorf("resource exhausted")
	}
	srv.mu.Unlock()
	_, err = c.Monitor(context.Background(), c.NewMonitor(client.WithTable(&T{})))
	if err == nil {
		t.Fatal("the second monitor request was expected to fail")
	}
	waitFor(t, "update3 of T2 applied", func() bool {
		tags, _ := cacheTags(c, rowID)
		return fmt.Sprint(tags) == "[a b x]"
	})
	t.Logf("second Monitor call failed as arranged (%v); cache is up to date: tags=[a b x]", err)

	// connection loss; the database does not change at all
	n := sessions()
	srv.cut()
	waitFor(t, "client reconnected", func() bool { return sessions() == n+1 && c.Connected() })
	time.Sleep(200 * time.Millisecond)

	for _, l := range srv.log {
		t.Log(l)
	}
	want := dbTags(db, rowID)
	got, ok := cacheTags(c, rowID)
	t.Logf("database: tags=%v   client cache (Connected()=%v): tags=%v present=%v", want, c.Connected(), got, ok)
	if fmt.Sprint(want) != fmt.Sprint(got) {
		t.Fatalf("after reconnecting the cache does not match the database: database has tags %v, cache has %v "+
			"(the monitor offered a last-txn-id older than its cache, so the server sent a change the cache already contained)", want, got)
	}
}
