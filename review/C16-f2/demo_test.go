// Finding C16/2: a peer that goes silent while a Transact (or Monitor) call is
// in flight is never dropped: the inactivity probe notices the silence and calls
// Disconnect(), which needs the write lock of rpcMutex, but the in-flight call
// holds the read lock of rpcMutex for as long as it waits for its reply - and
// the reply will never come. With a context without deadline the client stays
// attached to the dead connection for ever: no reconnect, no monitor
// re-established, the cache never converges, Transact never returns, and every
// other client call that needs rpcMutex (Connected(), CurrentEndpoint(), Echo,
// Transact ...) hangs behind the pending writer. (With a context that has a
// deadline the silent peer is only dropped when that deadline expires, however
// short the inactivity timeout is.)
//
// Where to put it / how to run (self-contained, public API only, uses the
// repository's own server and in-memory database behind a small TCP/unix relay
// that can stop relaying, i.e. a peer/path that goes silent without closing):
//
//	mkdir -p <libovsdb>/c16demo2 && cp demo_test.go <libovsdb>/c16demo2/
//	cd <libovsdb> && GOFLAGS=-mod=mod GOPROXY=off GOSUMDB=off GOTOOLCHAIN=local \
//	    go test ./c16demo2/ -run TestSilentPeer -count=1 -v
//
// (inside the review worktree it can be run in place: go test ./findings/2/ ...)
//
// TestSilentPeer/idle is the control: the same silence with no call in flight
// is detected and the client resynchronises (passes). TestSilentPeer/transact_in_flight
// is the failing case. Nothing inside the library is forced.
package c16demo2

import (
	"context"
	"encoding/json"
	"net"
	"path/filepath"
	"sync"
	"sync/atomic"
	"testing"
	"time"

	"github.com/cenkalti/backoff/v4"
	"github.com/go-logr/logr"
	"github.com/ovn-org/libovsdb/client"
	"github.com/ovn-org/libovsdb/database/inmemory"
	"github.com/ovn-org/libovsdb/model"
	"github.com/ovn-org/libovsdb/ovsdb"
	"github.com/ovn-org/libovsdb/server"
)

const schemaJSON = `{
  "name": "DB", "version": "1.0.0",
  "tables": {
    "T": {
      "isRoot": true,
      "columns": {
        "name": {"type": "string"},
        "tags": {"type": {"key": {"type": "string"}, "min": 0, "max": "unlimited"}}
      }
    }
  }
}`

type T struct {
	UUID string   `ovsdb:"_uuid"`
	Name string   `ovsdb:"name"`
	Tags []string `ovsdb:"tags"`
}

// relay forwards connections to the real server. silence() makes the
// connections existing at that moment swallow everything the client sends and
// deliver nothing to it, without closing them towards the client; connections
// accepted later work normally.
type relay struct {
	sock, target string
	accepted     int32
	mu           sync.Mutex
	gates        []*int32
	upstreams    []net.Conn
}

func newRelay(t *testing.T, target string) *relay {
	r := &relay{sock: filepath.Join(t.TempDir(), "relay.sock"), target: target}
	lis, err := net.Listen("unix", r.sock)
	if err != nil {
		t.Fatal(err)
	}
	t.Cleanup(func() { lis.Close() })
	go func() {
		for {
			c, err := lis.Accept()
			if err != nil {
				return
			}
			s, err := net.Dial("unix", target)
			if err != nil {
				c.Close()
				continue
			}
			atomic.AddInt32(&r.accepted, 1)
			gate := new(int32)
			r.mu.Lock()
			r.gates = append(r.gates, gate)
			r.upstreams = append(r.upstreams, s)
			r.mu.Unlock()
			pipe := func(dst, src net.Conn) {
				buf := make([]byte, 64*1024)
				for {
					n, err := src.Read(buf)
					if n > 0 && atomic.LoadInt32(gate) == 0 {
						if _, werr := dst.Write(buf[:n]); werr != nil {
							break
						}
					}
					if err != nil {
						break
					}
				}
				// a silenced connection does not even propagate a close
				if atomic.LoadInt32(gate) == 0 {
					dst.Close()
				}
			}
			go pipe(s, c)
			go pipe(c, s)
		}
	}()
	return r
}

func (r *relay) silence() {
	r.mu.Lock()
	defer r.mu.Unlock()
	for _, g := range r.gates {
		atomic.StoreInt32(g, 1)
	}
	// the server side of a silenced connection is closed, so that the
	// repository's server (which waits for a reply to every update it sends)
	// is not held up by it; the client side stays open and mute
	for _, s := range r.upstreams {
		s.Close()
	}
}

func startServer(t *testing.T, dbModel model.ClientDBModel) string {
	var schema ovsdb.DatabaseSchema
	if err := json.Unmarshal([]byte(schemaJSON), &schema); err != nil {
		t.Fatal(err)
	}
	full, errs := model.NewDatabaseModel(schema, dbModel)
	if len(errs) > 0 {
		t.Fatal(errs)
	}
	srv, err := server.NewOvsdbServer(inmemory.NewDatabase(map[string]model.ClientDBModel{"DB": dbModel}), full)
	if err != nil {
		t.Fatal(err)
	}
	sock := filepath.Join(t.TempDir(), "server.sock")
	go func() { _ = srv.Serve("unix", sock) }()
	t.Cleanup(srv.Close)
	for i := 0; i < 200 && !srv.Ready(); i++ {
		time.Sleep(10 * time.Millisecond)
	}
	return sock
}

func within(d time.Duration, f func()) bool {
	done := make(chan struct{})
	go func() { f(); close(done) }()
	select {
	case <-done:
		return true
	case <-time.After(d):
		return false
	}
}

func insert(t *testing.T, c client.Client, name string) {
	t.Helper()
	ops, err := c.Create(&T{Name: name})
	if err != nil {
		t.Fatal(err)
	}
	ctx, cancel := context.WithTimeout(context.Background(), 2*time.Second)
	defer cancel()
	res, err := c.Transact(ctx, ops...)
	if err != nil {
		t.Fatal(err)
	}
	if _, err := ovsdb.CheckOperationResults(res, ops); err != nil {
		t.Fatal(err)
	}
}

func cacheHas(c client.Client, name string) bool {
	for _, m := range c.Cache().Table("T").Rows() {
		if m.(*T).Name == name {
			return true
		}
	}
	return false
}

func run(t *testing.T, transactInFlight bool) {
	const inactivity = 300 * time.Millisecond

	dbModel, err := model.NewClientDBModel("DB", map[string]model.Model{"T": &T{}})
	if err != nil {
		t.Fatal(err)
	}
	serverSock := startServer(t, dbModel)
	rl := newRelay(t, serverSock)
	quiet := logr.Discard()

	// another client, attached to the server directly
	other, err := client.NewOVSDBClient(dbModel, client.WithEndpoint("unix:"+serverSock), client.WithLogger(&quiet))
	if err != nil {
		t.Fatal(err)
	}
	if err := other.Connect(context.Background()); err != nil {
		t.Fatal(err)
	}
	defer other.Close()
	insert(t, other, "before")

	// the client under test, through the relay, with an inactivity probe
	c, err := client.NewOVSDBClient(dbModel,
		client.WithEndpoint("unix:"+rl.sock),
		client.WithInactivityCheck(inactivity, 2*time.Second, backoff.NewConstantBackOff(20*time.Millisecond)),
		client.WithLogger(&quiet))
	if err != nil {
		t.Fatal(err)
	}
	if err := c.Connect(context.Background()); err != nil {
		t.Fatal(err)
	}
	defer func() { go c.Close() }() // Close() hangs too on the unfixed tree
	if _, err := c.Monitor(context.Background(), c.NewMonitor(client.WithTable(&T{}))); err != nil {
		t.Fatal(err)
	}
	if !cacheHas(c, "before") {
		t.Fatal("initial contents missing")
	}

	// the peer goes silent (the connection stays open, nothing gets through)
	rl.silence()

	transactReturned := make(chan error, 1)
	if transactInFlight {
		ops, err := c.Create(&T{Name: "mine"})
		if err != nil {
			t.Fatal(err)
		}
		go func() {
			// no deadline, like context.Background() / context.TODO() callers
			_, err := c.Transact(context.Background(), ops...)
			transactReturned <- err
		}()
	}

	// somebody else changes the database meanwhile
	insert(t, other, "while-away")

	// 2 x inactivity is what the probe needs to declare the peer dead; new
	// connections through the relay work; allow 20 x inactivity
	deadline := time.Now().Add(20 * inactivity)
	resynced := false
	for time.Now().Before(deadline) && !resynced {
		resynced = atomic.LoadInt32(&rl.accepted) >= 2 && cacheHas(c, "while-away")
		time.Sleep(20 * time.Millisecond)
	}

	var connected bool
	connectedAnswered := within(time.Second, func() { connected = c.Connected() })
	t.Logf("silence observed for up to %v (inactivity timeout %v): connections made by the client=%d, cache has the row committed meanwhile=%v, Connected() answered=%v (value %v)",
		20*inactivity, inactivity, atomic.LoadInt32(&rl.accepted), cacheHas(c, "while-away"), connectedAnswered, connected)
	if transactInFlight {
		select {
		case err := <-transactReturned:
			t.Logf("the in-flight Transact returned: %v", err)
		default:
			t.Logf("the in-flight Transact has not returned")
		}
	}
	if !resynced {
		t.Errorf("the silent peer was never dropped: the client did not reconnect and its cache did not converge")
	}
	if !connectedAnswered {
		t.Errorf("Connected() hangs (a writer is queued on rpcMutex behind the in-flight call)")
	}
}

func TestSilentPeer(t *testing.T) {
	t.Run("idle", func(t *testing.T) { run(t, false) })
	t.Run("transact_in_flight", func(t *testing.T) { run(t, true) })
}
