// Finding C03/1: arithmetic mutations never report "range error".
//
// Where to put it: any new directory inside the libovsdb module, e.g.
// <repo>/findings/1/demo_test.go (package c03demo1). It only uses exported
// API (database/inmemory, database/transaction through database.Database).
//
// How to run (no network needed):
//   export GOFLAGS=-mod=mod GOPROXY=off GOSUMDB=off GOTOOLCHAIN=local
//   go test ./findings/1/ -run TestArithmeticMutationOverflow -v
//
// The operations are decoded from JSON exactly as server.OvsdbServer.Transact
// does (json.Unmarshal into ovsdb.Operation), executed with
// database.Transaction.Transact and committed with Database.Commit when no
// operation failed, which is again what the server does.
//
// RFC 7047, 5.2.4 (mutate), errors:
//   "range error": the result of the mutation is not representable within the
//   database's format, e.g. an integer result outside the range
//   INT64_MIN...INT64_MAX or a real result outside the range -DBL_MAX...DBL_MAX.
// A failed operation aborts the transaction, the database is left unchanged.
package c03demo1

import (
	"encoding/json"
	"testing"

	"github.com/google/uuid"
	"github.com/ovn-org/libovsdb/database"
	"github.com/ovn-org/libovsdb/database/inmemory"
	"github.com/ovn-org/libovsdb/model"
	"github.com/ovn-org/libovsdb/ovsdb"
)

const schemaJSON = `{
 "name": "P", "version": "1.0.0",
 "tables": {
  "T": {
   "isRoot": true,
   "columns": {
    "name": {"type": "string"},
    "i": {"type": "integer"},
    "r": {"type": "real"}
   }
  }
 }
}`

type T struct {
	UUID string  `ovsdb:"_uuid"`
	Name string  `ovsdb:"name"`
	I    int     `ovsdb:"i"`
	R    float64 `ovsdb:"r"`
}

func newDB(t *testing.T) database.Database {
	var schema ovsdb.DatabaseSchema
	if err := json.Unmarshal([]byte(schemaJSON), &schema); err != nil {
		t.Fatal(err)
	}
	cdb, err := model.NewClientDBModel("P", map[string]model.Model{"T": &T{}})
	if err != nil {
		t.Fatal(err)
	}
	db := inmemory.NewDatabase(map[string]model.ClientDBModel{"P": cdb})
	if err := db.CreateDatabase("P", schema); err != nil {
		t.Fatal(err)
	}
	return db
}

// transact does what server.OvsdbServer.Transact does with the "params" of a
// transact request
func transact(t *testing.T, db database.Database, opsJSON string) []*ovsdb.OperationResult {
	var raw []json.RawMessage
	if err := json.Unmarshal([]byte(opsJSON), &raw); err != nil {
		t.Fatal(err)
	}
	var ops []ovsdb.Operation
	for _, r := range raw {
		var op ovsdb.Operation
		if err := json.Unmarshal(r, &op); err != nil {
			t.Fatal(err)
		}
		ops = append(ops, op)
	}
	res, upd := db.NewTransaction("P").Transact(ops...)
	for _, r := range res {
		if r != nil && r.Error != "" {
			return res
		}
	}
	if err := db.Commit("P", uuid.New(), upd); err != nil {
		t.Fatalf("commit: %v", err)
	}
	return res
}

func rows(t *testing.T, db database.Database) map[string]*T {
	all, err := db.List("P", "T")
	if err != nil {
		t.Fatal(err)
	}
	out := map[string]*T{}
	for _, m := range all {
		r := m.(*T)
		out[r.Name] = r
	}
	return out
}

func show(v interface{}) string {
	b, _ := json.Marshal(v)
	return string(b)
}

func TestArithmeticMutationOverflow(t *testing.T) {
	t.Run("integer", func(t *testing.T) {
		db := newDB(t)
		// 2^32, exactly representable also as a JSON number / float64
		res := transact(t, db, `[{"op":"insert","table":"T","row":{"name":"a","i":4294967296}}]`)
		if res[0].Error != "" {
			t.Fatalf("insert: %s", show(res))
		}
		// 2^32 * 2^32 = 2^64 is outside INT64_MIN...INT64_MAX: "range error"
		res = transact(t, db, `[{"op":"mutate","table":"T","where":[["name","==","a"]],"mutations":[["i","*=",4294967296]]}]`)
		t.Logf("result of i *= 2^32 on i == 2^32: %s", show(res))
		got := rows(t, db)["a"]
		t.Logf("row afterwards: %+v", got)
		if res[0].Error == "" {
			t.Errorf("mutate [i *= 4294967296] on i == 4294967296 succeeded with count %d, RFC 7047 wants \"range error\"; column i now holds %d",
				res[0].Count, got.I)
		}

		// the same with += : 2^62 + 2^62 = 2^63 = INT64_MAX + 1
		db = newDB(t)
		transact(t, db, `[{"op":"insert","table":"T","row":{"name":"a","i":4611686018427387904}}]`)
		res = transact(t, db, `[{"op":"mutate","table":"T","where":[["name","==","a"]],"mutations":[["i","+=",4611686018427387904]]}]`)
		got = rows(t, db)["a"]
		if res[0].Error == "" {
			t.Errorf("mutate [i += 2^62] on i == 2^62 succeeded with count %d, RFC 7047 wants \"range error\"; column i now holds %d",
				res[0].Count, got.I)
		}
	})

	t.Run("real", func(t *testing.T) {
		db := newDB(t)
		res := transact(t, db, `[{"op":"insert","table":"T","row":{"name":"a","i":7,"r":1e308}}]`)
		if res[0].Error != "" {
			t.Fatalf("insert: %s", show(res))
		}
		// 1e308 * 100 is outside -DBL_MAX...DBL_MAX: "range error"
		res = transact(t, db, `[{"op":"mutate","table":"T","where":[["name","==","a"]],"mutations":[["r","*=",100]]}]`)
		t.Logf("result of r *= 100 on r == 1e308: %s", show(res))
		all, _ := db.List("P", "T")
		for id, m := range all {
			t.Logf("row %s afterwards: %+v", id, m)
		}
		if res[0].Error == "" {
			t.Errorf("mutate [r *= 100] on r == 1e308 succeeded with count %d, RFC 7047 wants \"range error\"", res[0].Count)
		}
		// and the row is not even left with an infinite r: every column of it
		// (name, i, _uuid) is wiped
		if _, ok := rows(t, db)["a"]; !ok {
			t.Errorf("after the mutation no row has name \"a\" any more (the mutation only addressed column r): %s", show(rows(t, db)))
		}
	})
}
