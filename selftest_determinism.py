#!/usr/bin/env python3
"""selftest_determinism.py [PROP...] : for each property run N seeds three times in fresh processes at
GOMAXPROCS 1, 4 and 16 (several processes concurrently) and compare step counts and event-log digests.
Exit 2 on any mismatch (harness nondeterminism), 0 otherwise."""
import json, os, subprocess, sys, tempfile, shutil
V = "/verif"
props = sys.argv[1:] or ["C01","C02","C03","C04","C05","C06","C07","C11","C13","C14","C15","C16","C17","C18","C19"]
N = int(os.environ.get("N", "32"))
env = dict(os.environ, GOFLAGS="-mod=mod", GOPROXY="off", GOSUMDB="off", GOTOOLCHAIN="local", GOWORK="off")
scratch = tempfile.mkdtemp(prefix="verif-det-")
bad = 0
try:
    if subprocess.run([f"{V}/prep.sh", f"{scratch}/w"], env=env, capture_output=True).returncode != 0:
        print("build failed"); sys.exit(2)
    b = f"{scratch}/w/harness.test"
    for p in props:
        base = int(os.environ.get("BASE", "424242"))
        seeds = ",".join(str(base + i) for i in range(N))
        procs = []
        for k, gmp in enumerate([1, 4, 16, 2]):
            out = f"{scratch}/{p}.{k}.jsonl"
            procs.append((subprocess.Popen([b, "-test.run", "^TestWorker$", "-test.timeout", "0", "-prop", p, "-seedlist", seeds, "-out", out], env=dict(env, GOMAXPROCS=str(gmp)), stdout=subprocess.DEVNULL, stderr=subprocess.DEVNULL), out))
        res = []
        for pr, out in procs:
            pr.wait()
            d = {}
            for l in open(out):
                r = json.loads(l)
                if "start" not in r: d[r["seed"]] = (r["digest"], r["steps"])
            res.append(d)
        mism = [s for s in res[0] if any(r.get(s) != res[0][s] for r in res[1:])]
        print(f"{p}: {len(res[0])} seeds x {len(res)} processes (GOMAXPROCS 1,4,16,2): {len(mism)} mismatches {mism[:5]}", flush=True)
        bad += len(mism)
finally:
    shutil.rmtree(scratch, ignore_errors=True)
sys.exit(2 if bad else 0)
