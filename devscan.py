#!/usr/bin/env python3
# dev helper: run N seeds of a property on an already prepared scratch build and summarise outcomes
import sys, json, subprocess, collections, os
prop, n = sys.argv[1], int(sys.argv[2])
binary = sys.argv[3] if len(sys.argv) > 3 else "/tmp/scr1/harness.test"
base = int(os.environ.get("BASE", "1000003"))
W = 16
procs = []
for k in range(W):
    out = f"/tmp/devscan.{prop}.{k}.jsonl"
    procs.append((subprocess.Popen([binary, "-test.run", "^TestWorker$", "-test.timeout", "0", "-prop", prop, "-tier", os.environ.get("TIER","quick"), "-seeds", f"{base+k}:{base+n}", "-stride", str(W), "-out", out], stdout=subprocess.DEVNULL, stderr=subprocess.PIPE), out))
died = collections.Counter(); cls = collections.OrderedDict(); cnt = collections.Counter(); probes = collections.Counter(); runs = 0; steps = 0; ab = collections.Counter(); known=collections.Counter()
for p, out in procs:
    err = p.communicate()[1].decode()
    if p.returncode != 0:
        import re
        m = re.search(r"^(panic: .*|fatal error: .*)$", err, re.M)
        fr = [f for f in re.findall(r"^(github\.com/ovn-org/libovsdb/[^\s(]+(?:\([^)]*\))?[^\s(]*)\(", err, re.M) if "/simrt." not in f]
        died[(m.group(1) if m else "died")[:100] + " @ " + (fr[0] if fr else "?")] += 1
    for l in open(out):
        r = json.loads(l)
        if "start" in r: continue
        runs += 1; steps += r["steps"]
        for k, v in (r.get("probes") or {}).items(): probes[k] += v
        for k, v in (r.get("known") or {}).items(): known[k] += v
        if r.get("aborted"): ab[r["aborted"][:100]] += 1
        if r.get("harness_err"):
            k = ("HARNESS", r["harness_err"][:80]); cnt[k] += 1; cls.setdefault(k, (r["seed"], r["harness_err"]))
        if r.get("violation"):
            v = r["violation"]; k = (v["oracle"], v.get("key", "")); cnt[k] += 1; cls.setdefault(k, (r["seed"], v["msg"]))
print("worker crashes:", dict(died))
print(f"{prop}: {runs} runs, {steps} steps; aborted: {dict(ab)}; known: {dict(known)}")
for k, (seed, msg) in cls.items():
    print(f"== {k} x{cnt[k]} first seed {seed}\n   " + msg[:int(os.environ.get('MSG','900'))].replace("\n", "\n   "))
if os.environ.get("PROBES"):
    print(json.dumps(dict(sorted(probes.items())), indent=0))
