package harness

import (
	"bufio"
	"encoding/json"
	"flag"
	"fmt"
	"os"
	"strconv"
	"strings"
	"testing"
	"testing/synctest"
	"time"

	"github.com/ovn-org/libovsdb/simrt"
)

var (
	fProp     = flag.String("prop", "", "property id")
	fSeeds    = flag.String("seeds", "", "seed range a:b (b exclusive)")
	fTier     = flag.String("tier", "quick", "quick|thorough")
	fOut      = flag.String("out", "", "JSONL output file (default stdout)")
	fDeadline = flag.Int64("deadline", 0, "unix time after which no new run is started")
	fReplay   = flag.String("replay", "", "replay file")
	fVerbose  = flag.Bool("simv", false, "print the event log of every run")
	fStride   = flag.Int("stride", 1, "seed stride")
	fSeedList = flag.String("seedlist", "", "comma separated seeds (instead of -seeds)")
	fDumpCfg  = flag.String("dumpcfg", "", "write the derived configuration of the first seed here and exit")
)

func runBubble(t *testing.T, f func()) (panicked any) {
	defer func() { panicked = recover() }()
	synctest.Test(t, func(t *testing.T) { f() })
	return nil
}

// DeriveCfg expands a seed into an explicit run configuration.
func DeriveCfg(prop string, seed uint64, tier string) *RunCfg {
	switch prop {
	case "C02", "C04", "C06", "C07":
		// one run in five has several writers in flight (scenario S2)
		if simrt.NewRand(seed^0x25).Intn(5) == 0 {
			return cfgS2(prop, seed, tier)
		}
		return cfgS1(prop, seed, tier)
	case "C03", "C11", "C15":
		return cfgS1(prop, seed, tier)
	}
	if f, ok := cfgByProp[prop]; ok {
		return f(prop, seed, tier)
	}
	return nil
}

var cfgByProp = map[string]func(prop string, seed uint64, tier string) *RunCfg{}
var runByScenario = map[string]func(e *Env, cfg *RunCfg){"S1": runS1}

// RunOne executes one configuration in a fresh bubble.
func RunOne(t *testing.T, cfg *RunCfg, keepLog bool) *Result {
	res := &Result{Property: cfg.Property, Seed: cfg.Seed, Scenario: cfg.Scenario}
	t0 := time.Now()
	var tape *simrt.Tape
	if cfg.Schedule != nil {
		tape = simrt.NewReplayTape(cfg.Schedule)
	} else {
		tape = simrt.NewSeededTape(cfg.Seed)
		tape.Limit = cfg.TapeLimit
	}
	p := runBubble(t, func() {
		sim := simrt.NewSim(simrt.Config{Seed: cfg.Seed, YieldPermil: cfg.YieldPermil, PermuteMaps: cfg.PermuteMaps, Stick: cfg.Stick, MaxFragment: cfg.MaxFragment, Slow: cfg.Slow}, tape)
		defer sim.Stop()
		e, err := NewEnv(sim, KitchenSink(cfg.SchemaVariant), cfg.Property)
		if err != nil {
			res.HarnessErr = err.Error()
			return
		}
		if ms := cfg.Knob("max_steps", 0); ms > 0 {
			e.MaxSteps = ms
		}
		if os.Getenv("VERIF_TRACE") != "" {
			old := sim.Trace
			sim.Trace = func(step int, key string, n int) {
				old(step, key, n)
				fmt.Fprintf(realStderr, "%d %s (%d enabled)\n", step, key, n)
			}
		}
		defer func() {
			if r := recover(); r != nil {
				res.HarnessErr = fmt.Sprintf("harness panic: %v", r)
				if wb, ok := r.(interface{ Error() string }); ok {
					res.HarnessErr += " " + wb.Error()
				}
				res.Log = append(e.LogTail(40), simrt.AllStacks())
			}
			res.Violation = e.Viol
			if res.HarnessErr == "" {
				res.HarnessErr = e.HarnessErr
			}
			res.Steps = sim.Stats.Steps
			res.Choices = sim.Stats.ChoicePoints
			res.SimMs = e.Now().Milliseconds()
			res.Sig = fmt.Sprintf("%016x", sim.Signature()^e.Shape())
			res.Digest = e.Digest()
			res.Stats = sim.Stats
			res.Probes = e.Probes
			for k, v := range sim.Probe {
				res.Probes[k] += v
			}
			res.Faults = e.Faults
			res.Known = e.Known
			res.OutOfSteps = e.OutOfSteps
			res.Aborted = e.Aborted
			res.Checked = e.Probes["checked_nonempty"]
			res.NonTrivial = res.Checked > 0 && res.Choices > 0
			if e.Viol != nil || res.HarnessErr != "" || keepLog {
				if res.Log == nil {
					res.Log = e.LogTail(60)
				}
			}
		}()
		run := runByScenario[cfg.Scenario]
		if run == nil {
			res.HarnessErr = "unknown scenario " + cfg.Scenario
			return
		}
		run(e, cfg)
	})
	if p != nil {
		s := fmt.Sprint(p)
		if !strings.Contains(s, "deadlock: main bubble goroutine has exited") {
			res.HarnessErr = "bubble panic: " + s
		}
	}
	res.WallMs = time.Since(t0).Milliseconds()
	if res.Violation != nil || res.HarnessErr != "" {
		res.Tape = tape.Rec
		res.Cfg = cfg
	}
	return res
}

func TestWorker(t *testing.T) {
	if *fProp == "" && *fReplay == "" {
		t.Skip("no -prop")
	}
	out := os.Stdout
	if *fOut != "" {
		f, err := os.Create(*fOut)
		if err != nil {
			t.Fatal(err)
		}
		defer f.Close()
		out = f
	}
	w := bufio.NewWriter(out)
	defer w.Flush()
	emit := func(r *Result) {
		b, _ := json.Marshal(r)
		w.Write(b)
		w.WriteByte('\n')
		w.Flush()
	}
	if *fReplay != "" {
		cfg, err := LoadReplay(*fReplay)
		if err != nil {
			fmt.Fprintln(realStderr, "replay:", err)
			os.Exit(2)
		}
		r := RunOne(t, cfg, true)
		r.Cfg = cfg
		emit(r)
		if *fVerbose {
			for _, l := range r.Log {
				fmt.Fprintln(realStderr, l)
			}
		}
		return
	}
	var seeds []uint64
	first := true
	if *fSeedList != "" {
		for _, p := range strings.Split(*fSeedList, ",") {
			v, _ := strconv.ParseUint(strings.TrimSpace(p), 10, 64)
			seeds = append(seeds, v)
		}
	}
	parts := strings.Split(*fSeeds, ":")
	a, _ := strconv.ParseUint(parts[0], 10, 64)
	b := a + 1
	if len(parts) > 1 {
		b, _ = strconv.ParseUint(parts[1], 10, 64)
	}
	next := func() (uint64, bool) {
		if *fSeedList != "" {
			if len(seeds) == 0 {
				return 0, false
			}
			v := seeds[0]
			seeds = seeds[1:]
			return v, true
		}
		if a >= b {
			return 0, false
		}
		v := a
		a += uint64(*fStride)
		return v, true
	}
	for {
		seed, ok := next()
		if !ok {
			break
		}
		if *fDeadline > 0 && time.Now().Unix() >= *fDeadline {
			break
		}
		cfg := DeriveCfg(*fProp, seed, *fTier)
		if cfg == nil {
			fmt.Fprintln(realStderr, "no configuration for property", *fProp)
			os.Exit(2)
		}
		if *fDumpCfg != "" {
			cfg.Expect = *fProp + ".process-crash"
			b, _ := json.MarshalIndent(cfg, "", " ")
			_ = os.WriteFile(*fDumpCfg, b, 0o644)
			return
		}
		fmt.Fprintf(w, "{\"start\":%d}\n", seed)
		w.Flush()
		r := RunOne(t, cfg, *fVerbose)
		if first {
			first = false
			r.Sample = map[string]any{"cfg": cfg}
		}
		emit(r)
		if *fVerbose {
			for _, l := range r.Log {
				fmt.Fprintln(realStderr, l)
			}
		}
	}
}
