package harness

import (
	"encoding/json"
	"fmt"
	"io"
	"log"
	"os"
	"testing"
	"time"

	"github.com/go-logr/stdr"
	"github.com/google/uuid"
	"github.com/ovn-org/libovsdb/simrt"
)

// realStderr is kept for the harness's own diagnostics; libovsdb's loggers
// (which capture os.Stderr when they are created) are silenced. Logging never
// touches the tape or the clock.
var realStderr = os.Stderr

func TestMain(m *testing.M) {
	stdr.SetVerbosity(0)
	log.SetOutput(io.Discard)
	if f, err := os.OpenFile(os.DevNull, os.O_WRONLY, 0); err == nil {
		os.Stderr = f
	}
	uuid.SetRand(simrt.UUIDReader{})
	if err := SchemaFilesCurrent(); err != nil {
		os.Stdout.WriteString("harness: " + err.Error() + "\n")
		os.Exit(2)
	}
	kf := os.Getenv("VERIF_KNOWN")
	if kf == "" {
		kf = "/verif/known_findings.json"
	}
	if b, err := os.ReadFile(kf); err == nil {
		var doc struct {
			Findings []Finding `json:"findings"`
		}
		if err := json.Unmarshal(b, &doc); err != nil {
			os.Stdout.WriteString("known_findings.json: " + err.Error() + "\n")
			os.Exit(2)
		}
		KnownFindings = doc.Findings
	}
	// watchdog (real time, outside any bubble): a goroutine that spins without
	// ever reaching a scheduling point would leave the simulator waiting for
	// quiescence for ever
	go func() {
		last, since := int64(-1), time.Now()
		for {
			time.Sleep(2 * time.Second)
			hb := simrt.Heartbeat.Load()
			if hb != last || simrt.Live() == nil {
				last, since = hb, time.Now()
				continue
			}
			if time.Since(since) > 240*time.Second {
				fmt.Fprintf(realStderr, "fatal error: watchdog: the simulation made no progress for 240s (a goroutine runs without reaching a scheduling point)\n\n%s\n", simrt.AllStacks())
				os.Exit(3)
			}
		}
	}()
	os.Exit(m.Run())
}
