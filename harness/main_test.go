package harness

import (
	"encoding/json"
	"io"
	"log"
	"os"
	"testing"

	"github.com/go-logr/stdr"
	"github.com/google/uuid"
	"github.com/ovn-org/libovsdb/simrt"
)

// realStderr is kept for the harness's own diagnostics; libovsdb's loggers
// (which capture os.Stderr when they are created) are silenced. Logging never
// touches the tape or the clock.
var realStderr = os.Stderr

func TestMain(m *testing.M) {
	stdr.SetVerbosity(0)
	log.SetOutput(io.Discard)
	if f, err := os.OpenFile(os.DevNull, os.O_WRONLY, 0); err == nil {
		os.Stderr = f
	}
	uuid.SetRand(simrt.UUIDReader{})
	kf := os.Getenv("VERIF_KNOWN")
	if kf == "" {
		kf = "/verif/known_findings.json"
	}
	if b, err := os.ReadFile(kf); err == nil {
		var doc struct {
			Findings []Finding `json:"findings"`
		}
		if err := json.Unmarshal(b, &doc); err != nil {
			os.Stdout.WriteString("known_findings.json: " + err.Error() + "\n")
			os.Exit(2)
		}
		KnownFindings = doc.Findings
	}
	os.Exit(m.Run())
}
