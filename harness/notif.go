package harness

// Reading of the two notification encodings (DESIGN.md Appendix A), written
// from the protocol rules, not from libovsdb: apply a decoded notification to
// a replica of the monitored projection.

import (
	"encoding/json"
	"fmt"
	"sort"
)

// MonReq is one monitor request as the harness issued it.
type MonReq struct {
	Method string // monitor | monitor_cond | monitor_cond_since
	Cookie string
	Tables map[string]*MonTable
}

type MonTable struct {
	Columns []string // explicit list (never empty in generated requests)
	Initial bool
	Insert  bool
	Delete  bool
	Modify  bool
	NoSel   bool // "select" omitted: everything selected
	NoCols  bool // "columns" omitted: every column selected (Columns lists them all)
}

func (m *MonReq) TableNames() []string { return SortedKeys(m.Tables) }

func (m *MonReq) ColMap() map[string][]string {
	o := map[string][]string{}
	for t, mt := range m.Tables {
		o[t] = mt.Columns
	}
	return o
}

func (m *MonReq) AllKinds() bool {
	for _, mt := range m.Tables {
		if !(mt.Insert && mt.Delete && mt.Modify) {
			return false
		}
	}
	return true
}

// Wire renders the <monitor-requests> object.
func (m *MonReq) Wire() map[string]any {
	o := map[string]any{}
	for t, mt := range m.Tables {
		r := map[string]any{"columns": mt.Columns}
		if mt.NoCols {
			delete(r, "columns")
		}
		if !mt.NoSel {
			r["select"] = map[string]any{"initial": mt.Initial, "insert": mt.Insert, "delete": mt.Delete, "modify": mt.Modify}
		}
		o[t] = r
	}
	return o
}

// Project restricts a state to the monitored tables and columns.
func (m *MonReq) Project(st DBState) DBState {
	o := DBState{}
	for t, mt := range m.Tables {
		o[t] = TableData{}
		for u, r := range st[t] {
			o[t][u] = r.Project(mt.Columns)
		}
	}
	return o
}

// ExpectedNotification computes, from the states before and after a commit,
// which rows the monitor must be told about and of which kind.
type RowChange struct {
	Table, UUID string
	Kind        string // insert | delete | modify
	Old, New    Row    // projected on the monitored columns
	Changed     []string
}

func (m *MonReq) Expected(before, after DBState) []RowChange {
	var out []RowChange
	for _, t := range m.TableNames() {
		mt := m.Tables[t]
		seen := map[string]bool{}
		for u := range before[t] {
			seen[u] = true
		}
		for u := range after[t] {
			seen[u] = true
		}
		us := make([]string, 0, len(seen))
		for u := range seen {
			us = append(us, u)
		}
		sort.Strings(us)
		for _, u := range us {
			b, hb := before[t][u]
			a, ha := after[t][u]
			switch {
			case !hb && ha:
				if mt.Insert {
					out = append(out, RowChange{Table: t, UUID: u, Kind: "insert", New: a.Project(mt.Columns)})
				}
			case hb && !ha:
				if mt.Delete {
					out = append(out, RowChange{Table: t, UUID: u, Kind: "delete", Old: b.Project(mt.Columns)})
				}
			default:
				var ch []string
				for _, c := range mt.Columns {
					if !b[c].Eq(a[c]) {
						ch = append(ch, c)
					}
				}
				if len(ch) > 0 && mt.Modify {
					out = append(out, RowChange{Table: t, UUID: u, Kind: "modify", Old: b.Project(mt.Columns), New: a.Project(mt.Columns), Changed: ch})
				}
			}
		}
	}
	return out
}

// DecodedUpdate is one notification (or initial reply) decoded from the wire.
type DecodedUpdate struct {
	V2   bool
	Rows []DecodedRow
}

type DecodedRow struct {
	Table, UUID string
	// v1
	Old, New       Row
	HasOld, HasNew bool
	// v2
	Initial, Insert, Modify, Delete             Row
	HasInitial, HasInsert, HasModify, HasDelete bool
	Keys                                        []string
}

// DecodeTableUpdates decodes a <table-updates> or <table-updates2> object.
func DecodeTableUpdates(sch *Schema, raw json.RawMessage, v2 bool) (*DecodedUpdate, error) {
	var obj map[string]map[string]map[string]any
	if err := json.Unmarshal(raw, &obj); err != nil {
		return nil, fmt.Errorf("table updates: %w (%s)", err, raw)
	}
	d := &DecodedUpdate{V2: v2}
	for _, tn := range SortedKeys(obj) {
		t := sch.Tables[tn]
		if t == nil {
			return nil, fmt.Errorf("notification mentions unknown table %s", tn)
		}
		for _, u := range SortedKeys(obj[tn]) {
			ru := obj[tn][u]
			dr := DecodedRow{Table: tn, UUID: u, Keys: SortedKeys(ru)}
			for k, v := range ru {
				if v == nil {
					if k == "delete" {
						dr.HasDelete = true
						continue
					}
					continue // null old/new: absent
				}
				r, _, err := RowFromWire(t, v)
				if err != nil {
					return nil, fmt.Errorf("%s/%s.%s: %w", tn, u, k, err)
				}
				switch k {
				case "old":
					dr.Old, dr.HasOld = r, true
				case "new":
					dr.New, dr.HasNew = r, true
				case "initial":
					dr.Initial, dr.HasInitial = r, true
				case "insert":
					dr.Insert, dr.HasInsert = r, true
				case "modify":
					dr.Modify, dr.HasModify = r, true
				case "delete":
					dr.Delete, dr.HasDelete = r, true
				default:
					return nil, fmt.Errorf("%s/%s: unknown member %q", tn, u, k)
				}
			}
			d.Rows = append(d.Rows, dr)
		}
	}
	return d, nil
}

// ApplyDiff applies an update2 "modify" difference to one column value.
func ApplyDiff(ct *ColType, cur, diff Value) Value {
	if ct.IsMap() {
		out := cur.Clone()
		for _, p := range diff.Map {
			if w, ok := out.Get(p.K); ok && w == p.V {
				// identical pair: remove
				n := out.Map[:0]
				for _, q := range out.Map {
					if q.K != p.K {
						n = append(n, q)
					}
				}
				out.Map = n
			} else if ok {
				for i := range out.Map {
					if out.Map[i].K == p.K {
						out.Map[i].V = p.V
					}
				}
			} else {
				out.Map = append(out.Map, p)
			}
		}
		out.norm()
		return out
	}
	if ct.Max == 1 {
		return diff.Clone() // scalar or optional: the new value
	}
	out := Value{}
	for _, a := range cur.Set {
		if !diff.Has(a) {
			out.Set = append(out.Set, a)
		}
	}
	for _, a := range diff.Set {
		if !cur.Has(a) {
			out.Set = append(out.Set, a)
		}
	}
	out.norm()
	return out
}

// Apply applies a decoded update to a replica (projection on the monitored
// columns). It returns an error when the update cannot be applied by the rules
// (e.g. a modify for a row the replica does not hold).
func (m *MonReq) Apply(sch *Schema, rep DBState, d *DecodedUpdate) error {
	for _, r := range d.Rows {
		mt := m.Tables[r.Table]
		if mt == nil {
			return fmt.Errorf("update for unmonitored table %s", r.Table)
		}
		t := sch.Tables[r.Table]
		if rep[r.Table] == nil {
			rep[r.Table] = TableData{}
		}
		cur, have := rep[r.Table][r.UUID]
		fill := func(row Row) Row {
			// insert/initial rows may omit columns that hold the default value
			o := Row{}
			for _, c := range mt.Columns {
				if v, ok := row[c]; ok {
					o[c] = v
				} else {
					o[c] = omittedValue(&t.Columns[c].Type)
				}
			}
			return o
		}
		if !d.V2 {
			switch {
			case r.HasNew && !r.HasOld: // insert (or initial)
				if have {
					return fmt.Errorf("%s/%s: insert of a row the replica already holds", r.Table, r.UUID)
				}
				rep[r.Table][r.UUID] = fill(r.New)
			case r.HasOld && !r.HasNew:
				if !have {
					return fmt.Errorf("%s/%s: delete of a row the replica does not hold", r.Table, r.UUID)
				}
				delete(rep[r.Table], r.UUID)
			case r.HasOld && r.HasNew:
				if !have {
					return fmt.Errorf("%s/%s: modify of a row the replica does not hold", r.Table, r.UUID)
				}
				// "new" is the complete row as far as the monitored columns go; a
				// column left out holds its default value
				_ = cur
				rep[r.Table][r.UUID] = fill(r.New)
			default:
				return fmt.Errorf("%s/%s: row update with neither old nor new (members %v)", r.Table, r.UUID, r.Keys)
			}
			continue
		}
		switch {
		case r.HasInitial || r.HasInsert:
			if have {
				return fmt.Errorf("%s/%s: insert of a row the replica already holds", r.Table, r.UUID)
			}
			row := r.Insert
			if r.HasInitial {
				row = r.Initial
			}
			rep[r.Table][r.UUID] = fill(row)
		case r.HasDelete:
			if !have {
				return fmt.Errorf("%s/%s: delete of a row the replica does not hold", r.Table, r.UUID)
			}
			delete(rep[r.Table], r.UUID)
		case r.HasModify:
			if !have {
				return fmt.Errorf("%s/%s: modify of a row the replica does not hold", r.Table, r.UUID)
			}
			n := cur.Clone()
			for c, dv := range r.Modify {
				n[c] = ApplyDiff(&t.Columns[c].Type, n[c], dv)
			}
			rep[r.Table][r.UUID] = n
		default:
			return fmt.Errorf("%s/%s: update2 row with no insert/modify/delete/initial member (members %v)", r.Table, r.UUID, r.Keys)
		}
	}
	return nil
}

// omittedValue is what a column left out of an insert/initial/new row holds:
// the default atom for a scalar, nothing for anything else.
func omittedValue(ct *ColType) Value {
	if ct.IsScalar() {
		return defaultValue(ct)
	}
	return Value{IsMap: ct.IsMap()}
}
