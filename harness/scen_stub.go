package harness

import (
	"context"
	"encoding/json"
	"fmt"
	"reflect"
	"strings"
	"time"

	"github.com/ovn-org/libovsdb/simrt"
)

// Scenario S6C "corrupt server": a stub OVSDB server written in the harness
// (it runs on the simulator goroutine and contains no libovsdb logic) talks to
// a real client. It serves list_dbs / get_schema / monitor* / echo, pushes
// update, update2 and update3 notifications, and structurally corrupts some
// of the frames it sends: schema, monitor replies and notifications. The
// client process must survive and its API calls must keep returning. This is
// the client-side half of C19 (DatabaseSchema, TableUpdates, TableUpdates2,
// MonitorCondSinceReply decoders) and the only place where the client's
// update3 path is exercised.

func init() {
	runByScenario["S6C"] = runS6C
	runByScenario["S4R"] = runS4R
	runByScenario["S3R"] = runS3R
}

// Scenario S3R "mirror of a server that speaks update3": the stub server (not
// corrupting) feeds a real client through monitor / monitor_cond /
// monitor_cond_since with update / update2 / update3 notifications. For C01 the
// cache must mirror the stub's contents after every change (the only place
// where an uncorrupted update3 stream reaches a client). For C14 the stub also
// sends notifications the cache must refuse (insert of a row it already holds,
// delete / modify of a row it does not hold) and, with a single
// monitor_cond_since monitor, cuts the connection so that the client resumes
// with found=true and no purge: folding the delivered events must still
// reproduce the cache.
func runS3R(e *Env, cfg *RunCfg) {
	r := simrt.NewRand(cfg.Seed ^ 0x3a)
	s := &stubServer{e: e, r: r, state: DBState{}, sent: map[string]int{}, remember: true}
	for _, tn := range e.Sch.TableNames {
		s.state[tn] = TableData{}
	}
	for i := 0; i < 2; i++ {
		s.mutateState()
	}
	e.Sim.Net.ListenRaw(epMain, func(rc *simrt.RawConn) func([]byte) {
		c := &stubConn{rc: rc}
		s.conns = append(s.conns, c)
		return func(f []byte) { s.onFrame(c, f) }
	})
	ci := e.NewClient("c0", []string{epMain}, ClientOpts{Reconnect: true, Timeout: 2 * time.Second, BackoffStep: 100 * time.Millisecond})
	if ci == nil {
		return
	}
	if err := e.ConnectClient(ci, 5*time.Second); err != nil {
		if !e.Stopped() {
			e.Fatalf("connect to the stub server failed: %v", err)
		}
		return
	}
	h := &s3{e: e, cfg: cfg, db: e.Sch.Name}
	mc := &mirrorClient{ci: ci, spec: ClientSpec{Name: "c0"}, tables: map[string][]string{}}
	mk := func(dst *[]cacheEvent) *handlerRec { return &handlerRec{e: e, dst: dst} }
	ci.C.Cache().AddEventHandler(mk(&mc.events))
	ci.C.Cache().AddEventHandler(mk(&mc.events2))
	method := []string{"monitor", "monitor_cond", "monitor_cond_since", "monitor_cond_since"}[r.Intn(4)]
	spec := MonSpec{Owner: "c0", Method: method, Tables: map[string]*MonTable{}}
	for _, tn := range e.Sch.TableNames {
		spec.Tables[tn] = &MonTable{Columns: e.Sch.Tables[tn].ColNames, Initial: true, Insert: true, Delete: true, Modify: true}
	}
	cm := h.startMonitor(mc, spec)
	if !h.finishMonitor(mc, cm) {
		return
	}
	e.Probes["stub_monitor_"+method]++
	conflicts := e.Property == "C14"
	check := func(i int) bool {
		if !e.Settle() {
			return false
		}
		var got DBState
		e.Sim.Try(func() { got, _ = h.cacheState(mc) })
		if got == nil {
			return true
		}
		if s.state.Rows() > 0 {
			e.Probes["checked_nonempty"]++
		}
		switch e.Property {
		case "C14":
			h.checkC14(i, mc, got)
		default:
			conn := true
			e.Sim.Try(func() { conn = ci.C.Connected() })
			if !conn {
				e.ViolateK("C01.disconnected", "stub:"+method, "client disconnected from the (well-behaved) stub server after change %d\nclient log: %v", i, tail(ci.Log.lines, 8))
				return false
			}
			if d := DiffStates(s.state, got, e.Sch.TableNames, nil); d != "" {
				e.ViolateK("C01.mirror", "stub:"+method+":"+map[bool]string{true: "update3", false: "update"}[method == "monitor_cond_since"], "after change %d the cache differs from the stub server's contents (server vs cache), method %s:\n%s\nclient log: %v", i, method, d, tail(ci.Log.lines, 6))
				return false
			}
			e.Probes["cache_vs_stub_compared"]++
		}
		return !e.Stopped()
	}
	if !check(-1) {
		return
	}
	n := 8 + r.Intn(12)
	for i := 0; i < n; i++ {
		s.mutateState()
		if !check(i) {
			return
		}
		if conflicts && method == "monitor_cond_since" && r.Intn(4) == 0 {
			// cut in the middle of a burst of changes: the client resumes with
			// found=true, nothing is purged, so the event log simply continues
			s.mutateState()
			if r.Intn(2) == 0 {
				e.RunSteps(r.Intn(40))
			}
			ffBefore := s.sent["found_false"]
			for _, l := range e.Sim.Net.Links() {
				if !l.IsCut() {
					if r.Intn(2) == 0 {
						l.Cut()
					} else {
						l.CutEOF()
					}
					e.Faults["cut"]++
				}
			}
			for k := 0; k < r.Intn(3); k++ {
				s.mutateState()
			}
			ok := e.RunUntil(func() bool {
				ok := false
				e.Sim.Try(func() {
					ok = e.Quiet() && ci.C.Connected() && countOpenMonitors(s.conns) > 0
				})
				return ok
			})
			if !ok {
				if !e.Stopped() {
					e.Abort("client did not come back after a cut: C16's concern")
				}
				return
			}
			if s.sent["found_false"] > ffBefore {
				e.Abort("stub answered found=false: cache purged, event log restarts")
				return
			}
			e.Probes["c14_resumed_found_true"]++
			reconnected(ci)
			if !check(1000 + i) {
				return
			}
			continue
		}
		if conflicts && r.Intn(4) == 0 {
			s.sendConflict()
			e.Probes["stub_conflicting_notification"]++
			// the client may drop its connection to rebuild the cache: let it
			e.RunUntil(func() bool {
				ok := false
				e.Sim.Try(func() { ok = e.Quiet() && ci.C.Connected() && ci.C.CurrentEndpoint() != "" })
				return ok
			})
			if e.Stopped() {
				return
			}
			// a rebuild purges the cache without delete events (by design): restart the log
			if len(s.conns) > 0 && s.conns[len(s.conns)-1] != nil && countOpen(s.conns) >= 1 && reconnected(ci) {
				var got DBState
				e.Sim.Try(func() { got, _ = h.cacheState(mc) })
				if got != nil {
					mc.events, mc.events2 = snapshotAsAdds(got), snapshotAsAdds(got)
				}
			}
		}
	}
	for k, v := range s.sent {
		e.Probes["stub_"+k] += v
	}
	e.ShapeAdd(fmt.Sprintf("S3R %s %d", method, s.sent["notifications"]))
}

func countOpenMonitors(cs []*stubConn) int {
	n := 0
	for _, c := range cs {
		if !c.closed {
			n += len(c.monitors)
		}
	}
	return n
}

func countOpen(cs []*stubConn) int {
	n := 0
	for _, c := range cs {
		if !c.closed {
			n++
		}
	}
	return n
}

// reconnected reports whether the client log shows a reconnect (cache rebuilt).
func reconnected(ci *ClientInst) bool {
	n := 0
	for _, l := range ci.Log.lines {
		if strings.Contains(l, "reconnected - restarting monitors") {
			n++
		}
	}
	if n > ci.seenReconnects {
		ci.seenReconnects = n
		return true
	}
	return false
}

// snapshotAsAdds restarts an event log from the current cache contents.
func snapshotAsAdds(st DBState) []cacheEvent {
	var out []cacheEvent
	for _, tn := range SortedKeys(st) {
		for _, u := range SortedKeys(st[tn]) {
			out = append(out, cacheEvent{Kind: "add", Table: tn, UUID: u, New: st[tn][u]})
		}
	}
	return out
}

// sendConflict sends every monitor a notification the cache must refuse.
func (s *stubServer) sendConflict() {
	for _, c := range s.conns {
		if c.closed {
			continue
		}
		for _, m := range c.monitors {
			var table, uuid string
			for _, tn := range SortedKeys(m.tables) {
				if us := SortedKeys(s.state[tn]); len(us) > 0 {
					table, uuid = tn, us[s.r.Intn(len(us))]
					break
				}
			}
			if table == "" {
				continue
			}
			row := RowToWire(s.state[table][uuid].Project(m.tables[table]))
			ghost := fmt.Sprintf("00000000-dead-4bad-8000-%012d", s.r.Intn(1000))
			var ru, ghostRU any
			if m.method == "monitor" {
				ru = map[string]any{"new": row}      // insert of a row the cache holds
				ghostRU = map[string]any{"old": row} // delete of a row it does not hold
			} else {
				ru = map[string]any{"insert": row}
				if s.r.Intn(2) == 0 {
					// the row arrives again as initial contents, with other values
					changed := map[string]any{}
					for k, v := range row {
						changed[k] = v
					}
					changed["rank"] = 424242
					ru = map[string]any{"initial": changed}
				}
				ghostRU = map[string]any{"modify": map[string]any{}}
			}
			tu := map[string]any{table: map[string]any{uuid: ru}}
			if s.r.Intn(2) == 0 {
				tu = map[string]any{table: map[string]any{ghost: ghostRU}}
			}
			var cookie any
			_ = json.Unmarshal(m.cookie, &cookie)
			switch m.method {
			case "monitor":
				s.send(c, map[string]any{"method": "update", "params": []any{cookie, tu}, "id": nil})
			case "monitor_cond":
				s.send(c, map[string]any{"method": "update2", "params": []any{cookie, tu}, "id": nil})
			default:
				s.send(c, map[string]any{"method": "update3", "params": []any{cookie, s.txnID(len(s.history)), tu}, "id": nil})
			}
		}
	}
}

// Scenario S4R "reconnect to a server that remembers": the same stub server,
// not corrupting anything, keeps a history of transaction ids. A reconnecting
// client with monitor_cond_since monitors loses its connection at seeded points
// while the contents keep changing; with a single monitor the client sends its
// last transaction id and receives only the changes since (found=true, no
// purge), with several it starts over. Either way its cache must converge to the
// server's contents. This is the "last-transaction-id known" half of C16 and
// the only uncorrupted update3 traffic.
func runS4R(e *Env, cfg *RunCfg) {
	r := simrt.NewRand(cfg.Seed ^ 0x4a)
	s := &stubServer{e: e, r: r, state: DBState{}, sent: map[string]int{}, remember: true}
	for _, tn := range e.Sch.TableNames {
		s.state[tn] = TableData{}
	}
	for i := 0; i < 3; i++ {
		s.mutateState()
	}
	e.Sim.Net.ListenRaw(epMain, func(rc *simrt.RawConn) func([]byte) {
		c := &stubConn{rc: rc}
		s.conns = append(s.conns, c)
		return func(f []byte) { s.onFrame(c, f) }
	})
	timeout, backoff := ms(cfg.Knob("timeout_ms", 2000)), ms(cfg.Knob("backoff_ms", 100))
	bound := 4*(timeout+backoff) + 5*time.Second
	ci := e.NewClient("c0", []string{epMain}, ClientOpts{Reconnect: true, Timeout: timeout, BackoffStep: backoff})
	if ci == nil {
		return
	}
	if err := e.ConnectClient(ci, 5*time.Second); err != nil {
		if !e.Stopped() {
			e.Fatalf("connect to the stub server failed: %v", err)
		}
		return
	}
	h := &s3{e: e, cfg: cfg, db: e.Sch.Name}
	mc := &mirrorClient{ci: ci, spec: ClientSpec{Name: "c0"}, tables: map[string][]string{}}
	for _, m := range cfg.Monitors {
		m.Method = "monitor_cond_since"
		cm := h.startMonitor(mc, m)
		if !e.WaitCall(cm.call) || cm.err != nil {
			if !e.Stopped() {
				e.Fatalf("monitor on the stub server failed: %v", cm.err)
			}
			return
		}
		for tn, mt := range m.Tables {
			mc.tables[tn] = mt.Columns
		}
	}
	lastFault := e.Now()
	converge := func(when string) bool {
		deadline := lastFault + bound
		if e.Now()+bound > deadline {
			deadline = e.Now() + bound
		}
		var diff string
		connected := false
		e.RunUntil(func() bool {
			if e.Now() > deadline {
				return true
			}
			if !e.Quiet() {
				return false
			}
			connected = false
			e.Sim.Try(func() { connected = ci.C.Connected() && ci.C.CurrentEndpoint() != "" })
			if !connected {
				return false
			}
			var got DBState
			e.Sim.Try(func() { got, _ = h.cacheState(mc) })
			if got == nil {
				return false
			}
			diff = DiffStates(s.state, got, SortedKeys(mc.tables), mc.tables)
			return diff == ""
		})
		if e.Stopped() {
			return false
		}
		if connected && diff == "" {
			e.Probes["converged"]++
			if s.state.Rows() > 0 {
				e.Probes["checked_nonempty"]++
			}
			return true
		}
		if connected {
			e.ViolateK("C16.mirror", fmt.Sprintf("since-reconnect:monitors=%d:found_true=%v", len(cfg.Monitors), s.sent["found_true"] > 0), "%s: connected to a server that remembers transaction ids, but %v after the last cut the cache differs from the server's contents (server vs cache):\n%s\nfound=true replies so far: %d\nclient log: %v", when, e.Now()-lastFault, diff, s.sent["found_true"], tail(ci.Log.lines, 8))
		} else {
			e.ViolateK("C16.liveness", "stub", "%s: the client is not connected and consistent within %v of the last cut\nblocked: %v\nclient log: %v", when, bound, e.Sim.Blocked(), tail(ci.Log.lines, 8))
		}
		return false
	}
	if !converge("after set-up") {
		return
	}
	n := 8 + r.Intn(10)
	for i := 0; i < n; i++ {
		s.mutateState()
		if r.Intn(3) == 0 {
			// lose the connection here (possibly with the notification still in flight),
			// and keep changing the contents while the client is away
			for _, l := range e.Sim.Net.Links() {
				if !l.IsCut() && r.Intn(2) == 0 {
					e.Settle()
				}
				if !l.IsCut() {
					l.Cut()
					e.Faults["cut"]++
					lastFault = e.Now()
				}
			}
			for k := 0; k < r.Intn(3); k++ {
				s.mutateState()
			}
			if !converge(fmt.Sprintf("after cut %d", i)) {
				return
			}
		} else if r.Intn(2) == 0 {
			if !e.Settle() && e.Stopped() {
				return
			}
		}
	}
	converge("at the end of the run")
	for k, v := range s.sent {
		e.Probes["stub_"+k] += v
	}
	e.ShapeAdd(fmt.Sprintf("S4R %d %d", len(cfg.Monitors), s.sent["found_true"]))
}

type stubConn struct {
	rc       *simrt.RawConn
	monitors []stubMon
	closed   bool
}

type stubMon struct {
	method string
	cookie json.RawMessage
	tables map[string][]string
}

type stubServer struct {
	e      *Env
	r      *simrt.Rand
	state  DBState
	conns  []*stubConn
	txn    int
	notifN int
	// history[k] is the state after k changes; ids[k] its transaction id (a server that remembers)
	history  []DBState
	remember bool
	// corruption budget: probability (permil) of corrupting each kind of frame
	pSchema, pReply, pNotif int
	sent                    map[string]int
}

func (s *stubServer) send(c *stubConn, v any) {
	if c.closed {
		return
	}
	_ = c.rc.Send(append(mustJSON(v), '\n'))
}

func (s *stubServer) maybeCorrupt(v any, permil int, what string) any {
	if s.r.Intn(1000) >= permil {
		return v
	}
	var cp any
	_ = json.Unmarshal(mustJSON(v), &cp)
	var ps []jpath
	collect(cp, &ps)
	if len(ps) == 0 {
		return v
	}
	if what == "schema" && s.r.Intn(3) == 0 {
		// the typed corners of a schema: an enum, a type, a key/value description,
		// min/max, refTable, indexes - given a well-formed value of the wrong shape
		shapes := []any{[]any{"set", "permit"}, []any{"set", 5}, []any{"set", nil}, []any{"set", map[string]any{}}, []any{"set"}, []any{"set", []any{}},
			"permit", 5, nil, []any{}, map[string]any{}, []any{"map", []any{}}, []any{"set", []any{"a", 1}}, "unlimited", -1, 1.5, []any{[]any{1}}, []any{"nosuchcolumn"}}
		var typed []jpath
		for _, q := range ps {
			switch q.key {
			case "enum", "type", "key", "value", "min", "max", "refTable", "refType", "indexes", "columns", "mutable", "ephemeral":
				typed = append(typed, q)
			}
		}
		var enums []jpath
		for _, q := range typed {
			if q.key == "enum" {
				enums = append(enums, q)
			}
		}
		if len(enums) > 0 && s.r.Intn(3) == 0 {
			typed = enums // few and far between, but the one corner with its own little grammar
		}
		if len(typed) > 0 {
			q := typed[s.r.Intn(len(typed))]
			var j any
			_ = json.Unmarshal(mustJSON(shapes[s.r.Intn(len(shapes))]), &j)
			q.set(j)
			s.sent["corrupted_"+what]++
			s.e.Faults["corrupt_"+what]++
			return cp
		}
	}
	for n := 0; n < 1+s.r.Intn(2); n++ {
		p := ps[s.r.Intn(len(ps))]
		if m, ok := p.parent.(map[string]any); ok && s.r.Intn(3) == 0 {
			delete(m, p.key)
			continue
		}
		var j any
		_ = json.Unmarshal(mustJSON(junk[s.r.Intn(len(junk))]), &j)
		p.set(j)
	}
	s.sent["corrupted_"+what]++
	s.e.Faults["corrupt_"+what]++
	return cp
}

func (s *stubServer) rowsFor(table string, cols []string, key string) map[string]any {
	out := map[string]any{}
	for u, r := range s.state[table] {
		row := RowToWire(r.Project(cols))
		out[u] = map[string]any{key: row}
	}
	return out
}

func (s *stubServer) onFrame(c *stubConn, f []byte) {
	if f == nil {
		c.closed = true
		return
	}
	var msg struct {
		Method string            `json:"method"`
		Params []json.RawMessage `json:"params"`
		ID     json.RawMessage   `json:"id"`
	}
	if err := json.Unmarshal(f, &msg); err != nil || msg.Method == "" {
		return // a reply to one of our notifications
	}
	reply := func(result any) { s.send(c, map[string]any{"id": msg.ID, "result": result, "error": nil}) }
	switch msg.Method {
	case "list_dbs":
		reply([]string{s.e.Sch.Name})
	case "get_schema":
		var sch any
		_ = json.Unmarshal(s.e.Sch.JSON(), &sch)
		reply(s.maybeCorrupt(sch, s.pSchema, "schema"))
	case "echo":
		var ps []any
		for _, p := range msg.Params {
			var v any
			_ = json.Unmarshal(p, &v)
			ps = append(ps, v)
		}
		reply(ps)
	case "monitor", "monitor_cond", "monitor_cond_since":
		var reqs map[string]struct {
			Columns []string `json:"columns"`
		}
		if len(msg.Params) < 3 || json.Unmarshal(msg.Params[2], &reqs) != nil {
			s.send(c, map[string]any{"id": msg.ID, "result": nil, "error": "bad monitor request"})
			return
		}
		m := stubMon{method: msg.Method, cookie: msg.Params[1], tables: map[string][]string{}}
		key := "initial"
		if msg.Method == "monitor" {
			key = "new"
		}
		tu := map[string]any{}
		for t, rq := range reqs {
			m.tables[t] = rq.Columns
			if rows := s.rowsFor(t, rq.Columns, key); len(rows) > 0 {
				tu[t] = rows
			}
		}
		c.monitors = append(c.monitors, m)
		var res any = tu
		if msg.Method == "monitor_cond_since" {
			// found=false: complete contents, and the id of the latest transaction in them
			res = []any{false, s.txnID(len(s.history)), tu}
			if len(s.history) == 0 {
				res = []any{false, zeroUUID, tu}
			}
			s.sent["found_false"]++
			var last string
			if s.remember && len(msg.Params) >= 4 && json.Unmarshal(msg.Params[3], &last) == nil {
				forget := s.r.Intn(5) == 0 // a server may have discarded that part of its history
				if forget {
					s.sent["forgot_known_id"]++
				}
				for k := range s.history {
					if s.txnID(k+1) == last && !forget {
						// the id is known: answer with the changes since, and nothing else
						res = []any{true, s.txnID(len(s.history)), s.delta(m, s.history[k], s.state)}
						s.sent["found_true"]++
						s.sent["found_false"]--
						s.e.Probes["stub_found_true"]++
					}
				}
			}
		}
		if s.remember && len(s.history) > 0 && s.r.Intn(3) == 0 {
			// a transaction committed right after the monitor was registered: its
			// notification is written before the monitor reply (the real server
			// releases its transaction lock before the reply goes out)
			s.mutateState()
			s.sent["notification_before_reply"]++
		}
		reply(s.maybeCorrupt(res, s.pReply, "monitor_reply"))
	case "transact":
		s.send(c, map[string]any{"id": msg.ID, "result": []any{map[string]any{"error": "not supported", "details": "stub server"}}, "error": nil})
	default:
		s.send(c, map[string]any{"id": msg.ID, "result": nil, "error": "unknown method"})
	}
}

// mutateState changes the stub's contents a little and notifies every monitor.
func (s *stubServer) mutateState() {
	e := s.e
	g := NewGen(e.Sch, s.r.Uint64(), s.state, ProfileByName("valid-sw"), fmt.Sprintf("s%d", s.txn))
	g.prof.ExplicitID = 1000
	s.txn++
	ops, _ := g.Txn()
	out := RefTransact(e.Sch, s.state, NormalizeOps(ops), nil)
	if out.OpFailed || out.CommitErr != "" || out.After == nil {
		return
	}
	before := s.state
	s.state = out.After
	s.history = append(s.history, s.state)
	for _, c := range s.conns {
		if c.closed {
			continue
		}
		for _, m := range c.monitors {
			req := &MonReq{Method: m.method, Tables: map[string]*MonTable{}}
			for t, cols := range m.tables {
				req.Tables[t] = &MonTable{Columns: cols, Insert: true, Delete: true, Modify: true}
			}
			changes := req.Expected(before, s.state)
			if len(changes) == 0 {
				continue
			}
			tu := map[string]map[string]any{}
			for _, ch := range changes {
				if tu[ch.Table] == nil {
					tu[ch.Table] = map[string]any{}
				}
				t := e.Sch.Tables[ch.Table]
				switch {
				case m.method == "monitor" && ch.Kind == "insert":
					tu[ch.Table][ch.UUID] = map[string]any{"new": RowToWire(ch.New)}
				case m.method == "monitor" && ch.Kind == "delete":
					tu[ch.Table][ch.UUID] = map[string]any{"old": RowToWire(ch.Old)}
				case m.method == "monitor":
					tu[ch.Table][ch.UUID] = map[string]any{"old": RowToWire(ch.Old.Project(ch.Changed)), "new": RowToWire(ch.New)}
				case ch.Kind == "insert":
					tu[ch.Table][ch.UUID] = map[string]any{"insert": RowToWire(ch.New)}
				case ch.Kind == "delete":
					tu[ch.Table][ch.UUID] = map[string]any{"delete": nil}
				default:
					diff := Row{}
					for _, cn := range ch.Changed {
						diff[cn] = computeDiff(&t.Columns[cn].Type, ch.Old[cn], ch.New[cn])
					}
					tu[ch.Table][ch.UUID] = map[string]any{"modify": RowToWire(diff)}
				}
			}
			s.notifN++
			var cookie any
			_ = json.Unmarshal(m.cookie, &cookie)
			var body any = s.maybeCorrupt(tu, s.pNotif, "notification")
			if s.pNotif > 0 && s.r.Intn(12) == 0 {
				// a well-formed cookie the client does not know (a monitor it gave up on)
				if cm, ok := cookie.(map[string]any); ok {
					cm["id"] = fmt.Sprintf("00000000-c00c-4000-8000-%012d", s.r.Intn(1000))
					s.sent["unknown_cookie"]++
				}
			}
			switch m.method {
			case "monitor":
				s.send(c, map[string]any{"method": "update", "params": []any{cookie, body}, "id": nil})
			case "monitor_cond":
				s.send(c, map[string]any{"method": "update2", "params": []any{cookie, body}, "id": nil})
			default:
				s.send(c, map[string]any{"method": "update3", "params": []any{cookie, s.txnID(len(s.history)), body}, "id": nil})
			}
			s.sent["notifications"]++
		}
	}
}

func (s *stubServer) txnID(k int) string { return fmt.Sprintf("00000000-0000-4000-8000-%012d", k) }

// delta renders the changes from one state to another in update2 form for one monitor.
func (s *stubServer) delta(m stubMon, from, to DBState) map[string]map[string]any {
	e := s.e
	req := &MonReq{Method: m.method, Tables: map[string]*MonTable{}}
	for t, cols := range m.tables {
		req.Tables[t] = &MonTable{Columns: cols, Insert: true, Delete: true, Modify: true}
	}
	tu := map[string]map[string]any{}
	for _, ch := range req.Expected(from, to) {
		if tu[ch.Table] == nil {
			tu[ch.Table] = map[string]any{}
		}
		t := e.Sch.Tables[ch.Table]
		switch ch.Kind {
		case "insert":
			tu[ch.Table][ch.UUID] = map[string]any{"insert": RowToWire(ch.New)}
		case "delete":
			tu[ch.Table][ch.UUID] = map[string]any{"delete": nil}
		default:
			diff := Row{}
			for _, cn := range ch.Changed {
				diff[cn] = computeDiff(&t.Columns[cn].Type, ch.Old[cn], ch.New[cn])
			}
			tu[ch.Table][ch.UUID] = map[string]any{"modify": RowToWire(diff)}
		}
	}
	return tu
}

// computeDiff is the update2 difference of one column (inverse of ApplyDiff).
func computeDiff(ct *ColType, old, new Value) Value {
	if ct.IsMap() {
		d := Value{IsMap: true}
		for _, p := range old.Map {
			if w, ok := new.Get(p.K); !ok {
				d.Map = append(d.Map, p) // removal: the identical pair
			} else if w != p.V {
				d.Map = append(d.Map, Pair{p.K, w})
			}
		}
		for _, p := range new.Map {
			if _, ok := old.Get(p.K); !ok {
				d.Map = append(d.Map, p)
			}
		}
		d.norm()
		return d
	}
	if ct.Max == 1 {
		return new.Clone()
	}
	d := Value{}
	for _, a := range old.Set {
		if !new.Has(a) {
			d.Set = append(d.Set, a)
		}
	}
	for _, a := range new.Set {
		if !old.Has(a) {
			d.Set = append(d.Set, a)
		}
	}
	d.norm()
	return d
}

func runS6C(e *Env, cfg *RunCfg) {
	r := simrt.NewRand(cfg.Seed ^ 0x6c)
	s := &stubServer{e: e, r: r, state: DBState{}, sent: map[string]int{}}
	for _, tn := range e.Sch.TableNames {
		s.state[tn] = TableData{}
	}
	s.pSchema = []int{0, 0, 300}[r.Intn(3)]
	s.pReply = []int{0, 200, 500}[r.Intn(3)]
	s.pNotif = []int{150, 400, 800}[r.Intn(3)]
	// some contents to start with
	for i := 0; i < 4; i++ {
		s.mutateState()
	}
	e.Sim.Net.ListenRaw(epMain, func(rc *simrt.RawConn) func([]byte) {
		c := &stubConn{rc: rc}
		s.conns = append(s.conns, c)
		return func(f []byte) { s.onFrame(c, f) }
	})
	timeout := 2 * time.Second
	ci := e.NewClient("c0", []string{epMain}, ClientOpts{Reconnect: true, Timeout: timeout, BackoffStep: 100 * time.Millisecond})
	if ci == nil {
		return
	}
	bound := 30 * time.Second
	call := func(name string, f func(ctx context.Context) error) bool {
		c := e.Go(name, func(c *Call) {
			ctx, cancel := context.WithTimeout(context.Background(), timeout)
			defer cancel()
			c.Err = f(ctx)
		})
		dl := e.Now() + timeout + bound
		e.RunUntil(func() bool { return c.Done() || e.Now() > dl })
		if e.Stopped() {
			return false
		}
		if c.Panic != "" {
			e.ViolateK("C19.client-panic", name, "%s panicked: %s", name, trimStr(c.Panic, 2500))
			return false
		}
		if !c.Done() {
			e.ViolateK("C19.client-call-hangs", name, "%s does not return %v after its deadline although the (corrupting) server keeps answering\nblocked: %v\nclient log: %v\n%s", name, bound, e.Sim.Blocked(), tail(ci.Log.lines, 8), trimStr(goroutinesOf(libStacks(), "harness."), 4000))
			return false
		}
		e.Logf("%s: %v", name, c.Err)
		return true
	}
	connected := false
	for try := 0; try < 5 && !connected; try++ {
		var err error
		if !call(fmt.Sprintf("c0.connect%d", try), func(ctx context.Context) error { err = ci.C.Connect(ctx); return err }) {
			return
		}
		connected = err == nil
		if !connected {
			// Connect failed on a corrupted schema: close and retry
			if !call(fmt.Sprintf("c0.close%d", try), func(ctx context.Context) error { ci.C.Close(); return nil }) {
				return
			}
		}
	}
	if !connected {
		e.Probes["never_connected"]++
		return
	}
	mon := []string{"monitor", "monitor_cond", "monitor_cond_since"}[r.Intn(3)]
	spec := MonSpec{Owner: "c0", Method: mon, Tables: map[string]*MonTable{}}
	for _, tn := range e.Sch.TableNames {
		spec.Tables[tn] = &MonTable{Columns: e.Sch.Tables[tn].ColNames, Initial: true, Insert: true, Delete: true, Modify: true}
	}
	h := &s3{e: e, cfg: cfg, db: e.Sch.Name}
	mc := &mirrorClient{ci: ci, spec: ClientSpec{Name: "c0"}, tables: map[string][]string{}}
	cm := h.startMonitor(mc, spec)
	dl := e.Now() + 30*time.Second + bound
	e.RunUntil(func() bool { return cm.call.Done() || e.Now() > dl })
	if e.Stopped() {
		return
	}
	if !cm.call.Done() {
		e.ViolateK("C19.client-call-hangs", "Monitor", "Monitor does not return\nblocked: %v", e.Sim.Blocked())
		return
	}
	if cm.call.Panic != "" {
		e.ViolateK("C19.client-panic", "Monitor", "Monitor panicked: %s", trimStr(cm.call.Panic, 2500))
		return
	}
	e.Probes["stub_monitor_"+mon]++
	n := 6 + r.Intn(10)
	for i := 0; i < n; i++ {
		s.mutateState()
		if !e.Settle() && e.Stopped() {
			return
		}
		// the client must stay usable whatever it was sent
		tn := e.Sch.TableNames[r.Intn(len(e.Sch.TableNames))]
		if !call(fmt.Sprintf("c0.list%d", i), func(ctx context.Context) error {
			lst := reflect.New(reflect.SliceOf(reflect.PointerTo(e.Types[tn])))
			return ci.C.List(ctx, lst.Interface())
		}) {
			return
		}
		if i%3 == 2 {
			if !call(fmt.Sprintf("c0.echo%d", i), func(ctx context.Context) error { return ci.C.Echo(ctx) }) {
				return
			}
		}
		e.Probes["checked_nonempty"]++
	}
	for k, v := range s.sent {
		e.Probes["stub_"+k] += v
	}
	e.ShapeAdd(fmt.Sprintf("%s %d %d", mon, s.sent["corrupted_notification"], s.sent["corrupted_monitor_reply"]))
}
