package harness

import (
	"context"
	"fmt"
	"strings"
	"time"

	"github.com/ovn-org/libovsdb/ovsdb"
	"github.com/ovn-org/libovsdb/simrt"
)

// Scenario S4 "reconnect": S3 plus a fault plan. One reconnecting client with
// 1-3 monitors, a writer raw peer that is never faulted, the client's own
// transactions carrying unique markers. Faults are addressed by the ordinal of
// the frame about to be delivered on any of the client's links (so every
// message boundary of a session, handshake included, can be hit). After each
// fault window the run waits, within a bound, for the client to be connected
// with a cache equal to the database (liveness + safety). Serves C16.

func init() {
	cfgByProp["C16"] = cfgS4
	runByScenario["S4"] = runS4
}

type s4 struct {
	*s3
	mc        *mirrorClient
	spec      ClientSpec
	frameNo   int // frames seen so far on the client's links (both directions)
	armed     []*FaultSpec
	active    map[string]bool // fault kinds currently in force (stall / blackhole)
	ctxns     []*clientTxn
	bound     time.Duration
	lastFault time.Duration
	inact     time.Duration
	timeout   time.Duration
	backoff   time.Duration
	restarts  int
	// leader-only mode: two endpoints with replicated contents
	leaderOnly bool
	eps        []string
	srvs       map[string]*ServerInst
	ws         map[string]*RawPeer
	leader     string
}

type clientTxn struct {
	marker string
	call   *Call
	ok     bool
	errStr string
}

func cfgS4(prop string, seed uint64, tier string) *RunCfg {
	r := simrt.NewRand(seed ^ 0x5454)
	c := &RunCfg{Property: prop, Scenario: "S4", Seed: seed, Knobs: map[string]int{}}
	c.SchemaVariant = r.Intn(3)
	c.YieldPermil = []int{0, 30, 150}[r.Intn(3)]
	c.PermuteMaps = r.Intn(10) != 0
	c.Stick = []int{1, 4, 16}[r.Intn(3)]
	c.MaxFragment = []int{0, 0, 64, 700}[r.Intn(4)]
	n := 6 + r.Intn(8)
	if tier == "thorough" {
		n = 8 + r.Intn(16)
	}
	for i := 0; i < n; i++ {
		kind := ""
		if r.Intn(4) == 0 {
			kind = "client" // a transaction of the client itself, with a marker
		}
		c.Txns = append(c.Txns, TxnSpec{Actor: "w", GenSeed: r.Uint64(), Profile: "valid-sw", Kind: kind})
	}
	cs := ClientSpec{Name: "c0", Reconnect: true, Indexes: r.Intn(2) == 0}
	if r.Intn(2) == 0 {
		cs.Inactivity = []int{300, 1000, 3000}[r.Intn(3)]
	}
	c.Clients = []ClientSpec{cs}
	c.Knobs["timeout_ms"] = []int{500, 2000}[r.Intn(2)]
	c.Slow = slowClasses(r, ".mon", "handleRequest", "/client:", ".txn")
	c.Knobs["backoff_ms"] = []int{50, 200}[r.Intn(2)]
	sch := KitchenSink(c.SchemaVariant)
	tabs := append([]string(nil), sch.TableNames...)
	for i := len(tabs) - 1; i > 0; i-- {
		j := r.Intn(i + 1)
		tabs[i], tabs[j] = tabs[j], tabs[i]
	}
	nm := 1 + r.Intn(3)
	per := len(tabs) / nm
	for m := 0; m < nm; m++ {
		part := tabs[m*per : (m+1)*per]
		if m == nm-1 {
			part = tabs[m*per:]
		}
		ms := MonSpec{Owner: "c0", AfterTxn: 0, Tables: map[string]*MonTable{}}
		ms.Method = []string{"monitor", "monitor_cond", "monitor_cond_since"}[r.Intn(3)]
		for _, tn := range part {
			ms.Tables[tn] = &MonTable{Columns: sch.Tables[tn].ColNames, Initial: true, Insert: true, Delete: true, Modify: true}
		}
		c.Monitors = append(c.Monitors, ms)
	}
	if r.Intn(4) == 0 {
		// leader-only client, two endpoints whose contents are kept identical by the writer
		c.Knobs["leader_only"] = 1
		c.Clients[0].LeaderOnly = true
		for i := range c.Txns {
			c.Txns[i].Kind = ""
		}
	}
	if r.Intn(6) == 0 && c.Knobs["leader_only"] != 1 {
		c.Scenario = "S4R" // against the stub server that remembers transaction ids (found=true path)
		c.Clients[0].Inactivity = 0
	}
	// fault plan
	nf := 1 + r.Intn(3)
	for k := 0; k < nf; k++ {
		kinds := []string{"cut", "cut", "eof", "eof", "torn", "restart", "refuse", "stall"}
		if cs.Inactivity > 0 {
			kinds = append(kinds, "blackhole", "blackhole")
		}
		if c.Knobs["leader_only"] == 1 {
			kinds = []string{"flip", "flip", "cut", "eof", "torn"}
		}
		if cs.Inactivity > 0 {
			// only a client that probes can notice a peer that went silent
			kinds = append(kinds, "mute")
		}
		f := FaultSpec{Kind: kinds[r.Intn(len(kinds))], AfterTxn: r.Intn(n), Frame: r.Intn(14), Bytes: r.Intn(40), N: 1 + r.Intn(2), Ms: []int{100, 700, 3000}[r.Intn(3)], Dir: r.Intn(2)}
		if k == 0 && r.Intn(3) == 0 {
			f.AfterTxn = -1 // during the initial handshake / monitor set-up
			f.Frame = r.Intn(10)
		}
		c.Faults = append(c.Faults, f)
	}
	if cs.Inactivity > 0 && r.Intn(4) == 0 {
		// the server goes silent somewhere in the hand-shake: list_dbs, get_schema (twice
		// with _Server), the leader check, the _Server monitor, the first user monitor
		c.Faults = append(c.Faults, FaultSpec{Kind: "mute", AfterTxn: -1, Frame: r.Intn(7), N: 1})
	}
	return c
}

func (s *s4) owner(l *simrt.Link) string {
	d := l.Dialer
	if i := strings.IndexAny(d, "./"); i > 0 {
		d = d[:i]
	}
	return d
}

func (s *s4) clientLinks() []*simrt.Link {
	var out []*simrt.Link
	for _, l := range s.e.Sim.Net.Links() {
		if s.owner(l) == s.spec.Name {
			out = append(out, l)
		}
	}
	return out
}

// beforeDeliver is the fault hook: it sees every frame about to be delivered.
func (s *s4) beforeDeliver(l *simrt.Link, dir int, idx int, frame []byte) int {
	if s.owner(l) != s.spec.Name {
		return -1
	}
	s.frameNo++
	for _, f := range s.armed {
		if f.Frame != 0 {
			f.Frame--
			continue
		}
		if f.N <= 0 {
			continue
		}
		switch f.Kind {
		case "cut", "eof":
			f.N--
			f.Frame = 2 // a repeated cut strikes again two frames later
			s.fault(f.Kind, fmt.Sprintf("link %s cut before frame %d/%d (%s)", l.Name, dir, idx, frameKind(frame)))
			if f.Kind == "eof" {
				l.CutEOF() // both sides see an orderly close, the frame is lost
			} else {
				l.Cut()
			}
			return -1
		case "mute":
			// the server goes silent exactly at this request: nothing it sends from now
			// on arrives (the request itself is delivered)
			f.N = 0
			if dir != 0 {
				f.N, f.Frame = 1, 0 // wait for a frame from the client
				continue
			}
			s.fault("mute", fmt.Sprintf("link %s: the server goes silent at frame %d/%d (%s)", l.Name, dir, idx, frameKind(frame)))
			l.Blackhole(1)
			return -1
		case "torn":
			f.N = 0
			n := f.Bytes
			if n >= len(frame) {
				n = len(frame) / 2
			}
			s.fault("torn", fmt.Sprintf("link %s: %d of %d bytes of frame %d/%d delivered, then cut (%s)", l.Name, n, len(frame), dir, idx, frameKind(frame)))
			return n
		}
	}
	return -1
}

func frameKind(f []byte) string {
	s := string(f)
	for _, m := range []string{"list_dbs", "get_schema", "monitor_cond_since", "monitor_cond", "monitor", "transact", "update3", "update2", "update", "echo"} {
		if strings.Contains(s, `"method":"`+m+`"`) {
			return m
		}
	}
	if strings.Contains(s, `"result"`) {
		return "reply"
	}
	return "?"
}

func (s *s4) fault(kind, desc string) {
	s.e.Faults[kind]++
	s.e.Logf("FAULT %s: %s", kind, desc)
	s.lastFault = s.e.Now()
}

// arm activates the faults scheduled after transaction i (-1: handshake).
func (s *s4) arm(i int) {
	e := s.e
	for k := range s.cfg.Faults {
		f := s.cfg.Faults[k]
		if f.AfterTxn != i {
			continue
		}
		switch f.Kind {
		case "cut", "torn", "eof", "mute":
			ff := f
			s.armed = append(s.armed, &ff)
		case "restart":
			// server crash + restart over the same database: every connection dies, monitors are lost
			s.fault("restart", "server restarted")
			old := s.srv.Srv
			if !e.Do(func() { old.Close() }) {
				return
			}
			e.Sim.Net.CutAll(epMain)
			s.restarts++
			s.srv = e.StartServer(epMain, false, s.srv.DB)
			if s.srv == nil {
				return
			}
			// the writer reconnects at once (a pending refusal of dials does not outlive the restart)
			e.Sim.Net.Refuse(epMain, 0)
			w, err := e.NewRawPeer(fmt.Sprintf("w%d", s.restarts), epMain)
			if err != nil {
				e.Fatalf("writer redial: %v", err)
				return
			}
			s.w = w
		case "refuse":
			n := 1 + f.N
			s.fault("refuse", fmt.Sprintf("next %d dials refused, link cut", n))
			e.Sim.Net.Refuse(epMain, n)
			for _, l := range s.clientLinks() {
				if !l.IsCut() {
					l.Cut()
				}
			}
		case "stall":
			for _, l := range s.clientLinks() {
				if !l.IsCut() {
					l := l
					dir := f.Dir
					s.fault("stall", fmt.Sprintf("link %s direction %d stalled for %dms", l.Name, dir, f.Ms))
					l.Stall(dir, true)
					s.active["stall"] = true
					simrt.Go0(e.Sim.Named(fmt.Sprintf("heal%d", k)), func() {
						time.Sleep(ms(f.Ms))
						// back under the scheduler before touching anything shared: a
						// goroutine woken by the clock runs beside whoever else it woke
						simrt.YieldHard(0)
						l.Stall(dir, false)
						s.active["stall"] = false
					})
				}
			}
		case "flip":
			s.flipLeader()
		case "blackhole":
			for _, l := range s.clientLinks() {
				if !l.IsCut() {
					s.fault("blackhole", fmt.Sprintf("link %s: traffic from the server silently dropped (half-open)", l.Name))
					l.Blackhole(1)
					if f.Dir == 1 {
						l.Blackhole(0)
					}
				}
			}
		}
	}
}

func runS4(e *Env, cfg *RunCfg) {
	base := &s3{e: e, cfg: cfg, db: e.Sch.Name}
	s := &s4{s3: base, active: map[string]bool{}}
	s.spec = cfg.Clients[0]
	s.timeout = ms(cfg.Knob("timeout_ms", 2000))
	s.backoff = ms(cfg.Knob("backoff_ms", 100))
	s.inact = ms(s.spec.Inactivity)
	s.bound = 4*(s.timeout+s.backoff) + 4*s.inact + 5*time.Second
	s.leaderOnly = cfg.Knob("leader_only", 0) == 1
	s.eps = []string{epMain}
	var err error
	if s.leaderOnly {
		s.eps = []string{epMain, "ep1:6640"}
		s.srvs = map[string]*ServerInst{}
		s.ws = map[string]*RawPeer{}
		for k, ep := range s.eps {
			si := e.StartServer(ep, true, nil)
			if e.Stopped() {
				return
			}
			s.srvs[ep] = si
			w, err := e.NewRawPeer(fmt.Sprintf("w@%d", k), ep)
			if err != nil {
				e.Fatalf("writer dial: %v", err)
				return
			}
			s.ws[ep] = w
			si.SID = fmt.Sprintf("00000000-0000-4000-8000-5e0000000%03d", k)
			si.Leader = k == 0
			row := map[string]any{"name": e.Sch.Name, "model": "clustered", "connected": true, "leader": si.Leader, "sid": []any{"uuid", si.SID}, "cid": []any{"uuid", "00000000-0000-4000-8000-c1d000000000"}, "index": 1}
			call := w.Call("transact", []any{"_Server", Op{"op": "insert", "table": "Database", "row": row}, Op{"op": "insert", "table": "Database", "row": map[string]any{"name": "_Server", "model": "standalone", "connected": true, "leader": true}}})
			if !e.RunUntil(func() bool { return call.Done }) || call.ErrorStr != "" {
				if !e.Stopped() {
					e.Fatalf("cannot seed _Server: %s", call)
				}
				return
			}
		}
		s.leader = epMain
		s.srv = s.srvs[epMain]
		s.w = s.ws[epMain]
	} else {
		s.srv = e.StartServer(epMain, false, nil)
		if e.Stopped() {
			return
		}
		s.w, err = e.NewRawPeer("w", epMain)
		if err != nil {
			e.Fatalf("writer dial: %v", err)
			return
		}
	}
	e.Sim.Net.BeforeDeliver = s.beforeDeliver
	s.arm(-1)
	// client: connect (retrying like a user would when the first attempt fails)
	o := ClientOpts{Reconnect: true, Timeout: s.timeout, BackoffStep: s.backoff, Inactivity: s.inact, LeaderOnly: s.leaderOnly}
	if s.spec.Indexes {
		o.Indexes = clientIndexes(e.Sch)
	}
	ci := e.NewClient(s.spec.Name, s.eps, o)
	if ci == nil {
		return
	}
	s.mc = &mirrorClient{ci: ci, spec: s.spec, tables: map[string][]string{}}
	s.cls = []*mirrorClient{s.mc}
	connected := false
	for try := 0; try < 6 && !connected; try++ {
		err := e.ConnectClient(ci, s.timeout)
		if e.Stopped() {
			return
		}
		if err == nil {
			connected = true
		} else {
			e.Logf("connect attempt %d failed: %v", try, err)
			e.Probes["connect_failed_under_fault"]++
			// a Connect that failed half-way (e.g. while setting up the leadership
			// watch) leaves a client that reconnects on its own but was never fully
			// set up; like a careful user, close it before trying again
			cl := e.Go(fmt.Sprintf("c0.close%d", try), func(c *Call) { ci.C.Close() })
			if !e.WaitCall(cl) {
				if !e.Stopped() {
					s.liveness("Close after a failed Connect never returns")
				}
				return
			}
			next := e.Now() + s.backoff
			if !e.RunUntil(func() bool { return e.Now() > next && e.Now() > s.lastFault+s.backoff }) && e.Stopped() {
				return
			}
			// Close returns before the client has finished tearing the connection
			// down; like a user who retries a little later, let it finish
			if !e.Settle() && e.Stopped() {
				return
			}
		}
	}
	if !connected {
		s.liveness("initial Connect never succeeds although the server is healthy")
		return
	}
	// monitors (a Monitor call that fails under a fault is retried)
	for _, m := range cfg.Monitors {
		okm := false
		for try := 0; try < 6 && !okm; try++ {
			cm := s.startMonitor(s.mc, m)
			if !e.WaitCall(cm.call) {
				if !e.Stopped() {
					s.liveness("Monitor call never returns")
				}
				return
			}
			if cm.call.Panic != "" {
				e.ViolateK("C16.panic", "Monitor", "Monitor panicked: %s", cm.call.Panic)
				return
			}
			if cm.err == nil {
				okm = true
				cm.done = true
				for tn, mt := range m.Tables {
					s.mc.tables[tn] = mt.Columns
				}
			} else {
				s.mc.mons = s.mc.mons[:len(s.mc.mons)-1]
				e.Logf("monitor attempt %d failed: %v", try, cm.err)
				e.Probes["monitor_failed_under_fault"]++
				// retry a little later, like a user would: the client may be in the
				// middle of dropping and re-establishing the connection
				next := e.Now() + 2*s.backoff + 50*time.Millisecond
				e.RunUntil(func() bool { return e.Now() > next && e.Now() > s.lastFault+2*s.backoff+50*time.Millisecond })
				if e.Stopped() {
					return
				}
			}
		}
		if !okm {
			s.liveness("Monitor never succeeds although the server is healthy")
			return
		}
	}
	if !s.converge("after set-up") {
		return
	}
	for i, txn := range cfg.Txns {
		s.arm(i)
		if e.Stopped() {
			return
		}
		if txn.Kind == "client" {
			s.clientTransact(i)
		} else if !s.writerTransact(i, txn) {
			return
		}
		if e.Stopped() {
			return
		}
		// a fault window closes with a convergence check
		for _, f := range cfg.Faults {
			if f.AfterTxn == i {
				if !s.converge(fmt.Sprintf("after fault window %d (%s)", i, f.Kind)) {
					return
				}
			}
		}
	}
	s.armed = nil
	if !s.converge("at the end of the run") {
		return
	}
	s.checkMarkers()
}

func (s *s4) writerTransact(i int, txn TxnSpec) bool {
	e := s.e
	before := DBState{}
	if n := len(s.srv.DB.Commits); n > 0 && s.srv.DB.Commits[n-1].After != nil {
		before = s.srv.DB.Commits[n-1].After
	}
	g := NewGen(e.Sch, txn.GenSeed, before, ProfileByName(txn.Profile), fmt.Sprintf("t%d", i))
	g.Exclude = func(table, u string) bool {
		n := before[table][u]["name"]
		return table == "Root" && len(n.Set) == 1 && strings.HasPrefix(n.Set[0].S, "cm-")
	}
	g.UUIDWhereOnly = true
	if s.leaderOnly {
		g.prof.ExplicitID = 1000
	}
	ops, _ := g.Txn()
	ops = NormalizeOps(ops)
	params := []any{s.db}
	for _, op := range ops {
		params = append(params, op)
	}
	var calls []*RawCall
	if s.leaderOnly {
		// the writer stands for the cluster's replication: every endpoint applies the transaction
		for _, ep := range s.eps {
			calls = append(calls, s.ws[ep].Call("transact", params))
		}
	} else {
		calls = append(calls, s.w.Call("transact", params))
	}
	e.Logf("writer txn %d: %s", i, trimStr(string(mustJSON(ops)), 500))
	if !e.RunUntil(func() bool {
		for _, c := range calls {
			if !c.Done {
				return false
			}
		}
		return true
	}) {
		if !e.Stopped() {
			s.hang(fmt.Sprintf("transact %d of the (never faulted) writer", i), nil)
		}
		return false
	}
	return true
}

// flipLeader makes the other endpoint the leader (the old leader learns first
// that it lost leadership, as in a real election).
func (s *s4) flipLeader() {
	e := s.e
	if !s.leaderOnly {
		return
	}
	old := s.leader
	nu := s.eps[0]
	if nu == old {
		nu = s.eps[1]
	}
	set := func(ep string, leader bool) {
		call := s.ws[ep].Call("transact", []any{"_Server", Op{"op": "update", "table": "Database", "where": []any{[]any{"name", "==", e.Sch.Name}}, "row": map[string]any{"leader": leader}}})
		e.RunUntil(func() bool { return call.Done })
		s.srvs[ep].Leader = leader
	}
	s.fault("leader-flip", fmt.Sprintf("leadership moves from %s to %s", old, nu))
	set(old, false)
	set(nu, true)
	s.leader = nu
}

// clientTransact: the client inserts a uniquely named marker row. The call may
// block while the client is reconnecting; it carries a deadline.
func (s *s4) clientTransact(i int) {
	e := s.e
	ct := &clientTxn{marker: fmt.Sprintf("cm-%d", i)}
	s.ctxns = append(s.ctxns, ct)
	op := Op{"op": "insert", "table": "Root", "row": map[string]any{"name": ct.marker, "ia": 300000 + i, "ib": "cm", "kind": "c"}}
	var lops []ovsdb.Operation
	if err := jsonUnmarshal(mustJSON([]Op{op}), &lops); err != nil {
		e.Fatalf("decode: %v", err)
		return
	}
	ct.call = e.Go(fmt.Sprintf("c0.txn%d", i), func(c *Call) {
		ctx, cancel := context.WithTimeout(context.Background(), s.bound)
		defer cancel()
		res, err := s.mc.ci.C.Transact(ctx, lops...)
		if err != nil {
			ct.errStr = err.Error()
			return
		}
		ct.ok = true
		for _, r := range res {
			if r.Error != "" {
				ct.ok = false
				ct.errStr = r.Error + " " + r.Details
			}
		}
	})
	if !e.WaitCall(ct.call) {
		if !e.Stopped() {
			s.liveness(fmt.Sprintf("client Transact %d does not return although its context has a deadline of %v", i, s.bound))
		}
		return
	}
	if ct.call.Panic != "" {
		e.ViolateK("C16.panic", "Transact", "client Transact panicked: %s", ct.call.Panic)
		return
	}
	e.Logf("client txn %d (%s): ok=%v err=%s", i, ct.marker, ct.ok, ct.errStr)
	e.Probes["client_txn"]++
	if !ct.ok {
		e.Probes["client_txn_error"]++
	}
}

func (s *s4) liveness(what string) {
	e := s.e
	st := libStacks()
	if key := calleeOf(st, "database/transaction.(*Transaction).Transact"); key != "" && strings.Contains(key, "ProcessReferences") {
		e.Abort("server never answers (" + key + "): C04's concern")
		return
	}
	kind := "no-progress"
	if len(e.Sim.Blocked()) > 0 {
		kind = "dead-lock"
	}
	if e.Livelock != "" {
		kind = "endless loop"
	}
	e.ViolateK("C16.liveness", kind, "%s (%s; last fault at %v, now %v, bound %v)\nblocked: %v\nclient log: %v\n%s", what, kind, s.lastFault, e.Now(), s.bound, e.Sim.Blocked(), tail(s.mc.ci.Log.lines, 10), trimStr(st, 4000))
}

// converge waits, for at most the bound after the last fault, until the client
// is connected, everything is quiet and the cache equals the database on every
// monitored table.
func (s *s4) converge(when string) bool {
	e := s.e
	s.armed = nil // faults of this window that never struck are dropped
	deadline := e.Now() + s.bound
	if s.lastFault+s.bound > deadline {
		deadline = s.lastFault + s.bound
	}
	var lastDiff string
	var connected bool
	notLeader := ""
	cond := func() bool {
		if !e.Quiet() || s.active["stall"] {
			return e.Now() > deadline
		}
		connected = false
		attached := ""
		e.Sim.Try(func() {
			attached = strings.TrimPrefix(s.mc.ci.C.CurrentEndpoint(), "tcp:")
			connected = s.mc.ci.C.Connected() && attached != ""
		})
		if connected && s.leaderOnly {
			if si := s.srvs[attached]; si != nil {
				s.srv = si
				if !si.Leader {
					notLeader = attached
					return e.Now() > deadline
				}
				notLeader = ""
			}
		}
		if connected {
			db, _, ok := e.SnapshotDB(s.srv)
			var got DBState
			okc, _ := e.Sim.Try(func() { got, _ = s.cacheState(s.mc) })
			if ok && okc && got != nil {
				lastDiff = DiffStates(db, got, SortedKeys(s.mc.tables), s.mc.tables)
				if lastDiff == "" {
					if db.Rows() > 0 {
						e.Probes["checked_nonempty"]++
					}
					return true
				}
			}
		}
		return e.Now() > deadline
	}
	for {
		if !e.RunUntil(cond) {
			if e.Stopped() {
				return false
			}
			// nothing will ever happen again (no timer pending): decide now
			break
		}
		if lastDiff == "" && connected && e.Now() <= deadline {
			e.Probes["converged"]++
			return true
		}
		if e.Now() > deadline {
			break
		}
	}
	if connected && notLeader != "" {
		e.ViolateK("C16.leader", "attached-to-non-leader", "%s: %v after the last fault the leader-only client is still attached to %s, which reports it is not the leader\nclient log: %v", when, e.Now()-s.lastFault, notLeader, tail(s.mc.ci.Log.lines, 10))
		return false
	}
	if connected && lastDiff != "" {
		if db := mustDB(e, s.srv); len(integrityProblems(e.Sch, db)) > 0 || len(dupIndexTuples(e.Sch, db)) > 0 {
			// the database itself holds a dangling reference or a duplicate (listed C04 /
			// C06 findings): what it stores and what it announced cannot both be right
			e.Abort("database violates referential integrity or an index: C04's / C06's concern")
			return false
		}
		e.ViolateK("C16.mirror", s.mirrorKey(s.mc, mustDB(e, s.srv), mustCache(s, s.mc))+fmt.Sprintf(":monitors=%d", len(s.mc.mons)), "%s: the client reports being connected but %v after the last fault its cache still differs from the database (database vs cache):\n%s\nmonitors: %s\nfaults: %v\nclient log: %v", when, e.Now()-s.lastFault, lastDiff, s.descMons(s.mc), e.Faults, tail(s.mc.ci.Log.lines, 10))
		return false
	}
	s.liveness(when + ": the client is not connected and consistent within the bound after the last fault")
	return false
}

func mustDB(e *Env, si *ServerInst) DBState {
	db, _, _ := e.SnapshotDB(si)
	if db == nil {
		db = DBState{}
	}
	return db
}

func mustCache(s *s4, mc *mirrorClient) DBState {
	var got DBState
	s.e.Sim.Try(func() { got, _ = s.cacheState(mc) })
	if got == nil {
		got = DBState{}
	}
	return got
}

// checkMarkers: a Transact that returned results was applied exactly once, one
// that returned an error at most once.
func (s *s4) checkMarkers() {
	e := s.e
	db, _, ok := e.SnapshotDB(s.srv)
	if !ok {
		return
	}
	count := map[string]int{}
	for _, r := range db["Root"] {
		if n := r["name"]; len(n.Set) == 1 {
			count[n.Set[0].S]++
		}
	}
	for _, ct := range s.ctxns {
		n := count[ct.marker]
		e.Probes["marker_checked"]++
		switch {
		case ct.ok && n != 1:
			e.ViolateK("C16.exactly-once", "success", "client transaction %s returned results but its marker is stored %d time(s)", ct.marker, n)
			return
		case !ct.ok && n > 1:
			e.ViolateK("C16.exactly-once", "error", "client transaction %s returned an error (%s) but its marker is stored %d times", ct.marker, ct.errStr, n)
			return
		case !ct.ok && n == 1:
			e.Probes["marker_applied_despite_error"]++
		}
	}
}
