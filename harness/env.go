package harness

import (
	"context"
	"crypto/sha256"
	"encoding/hex"
	"fmt"
	"hash"
	"os"
	"reflect"
	"regexp"
	"runtime/debug"
	"sort"
	"strings"
	"sync/atomic"
	"testing/synctest"
	"time"

	"github.com/cenkalti/backoff/v4"
	"github.com/cenkalti/rpc2"
	"github.com/go-logr/logr"
	"github.com/ovn-org/libovsdb/client"
	"github.com/ovn-org/libovsdb/database/inmemory"
	"github.com/ovn-org/libovsdb/model"
	"github.com/ovn-org/libovsdb/ovsdb"
	"github.com/ovn-org/libovsdb/ovsdb/serverdb"
	"github.com/ovn-org/libovsdb/server"
	"github.com/ovn-org/libovsdb/simrt"
)

// Violation is a property violation found by an oracle.
type Violation struct {
	Property string `json:"property"`
	Oracle   string `json:"oracle"`
	Key      string `json:"key,omitempty"` // what specifically fails (input class / call site), used to tell findings apart
	Msg      string `json:"msg"`
	Step     int    `json:"step"`
}

// Finding is one entry of /verif/known_findings.json.
type Finding struct {
	ID       string `json:"id"`
	Property string `json:"property"`
	Oracle   string `json:"oracle"`
	Key      string `json:"key"`    // substring of the violation key ("" matches any)
	Status   string `json:"status"` // "open" suppresses; "fixed" suppresses nothing
	Commit   string `json:"commit,omitempty"`
	What     string `json:"what"`
}

// KnownFindings is loaded once per process (never written).
var KnownFindings []Finding

func matchFinding(prop, oracle, key string) *Finding {
	for i := range KnownFindings {
		f := &KnownFindings[i]
		if f.Status == "open" && f.Property == prop && f.Oracle == oracle && strings.Contains(key, f.Key) {
			return f
		}
	}
	return nil
}

// Env is one simulated world.
type Env struct {
	Sim     *simrt.Sim
	Sch     *Schema
	LibSch  ovsdb.DatabaseSchema
	CM      model.ClientDBModel
	Types   map[string]reflect.Type
	DBM     model.DatabaseModel
	Servers map[string]*ServerInst
	Clients []*ClientInst
	Peers   []*RawPeer

	Property string
	MaxSteps int
	MaxSim   time.Duration

	Viol          *Violation
	HarnessErr    string
	OutOfSteps    bool
	Aborted       string // the run was cut short for a reason that is another property's concern
	Livelock      string // a single goroutine ran for LivelockSteps consecutive steps
	stop          bool
	LivelockSteps int

	seq      int
	digest   hash.Hash
	logLines []string
	t0       time.Time
	Probes   map[string]int
	Faults   map[string]int
	Known    map[string]int // known finding id -> times seen in this run

	shape uint64
	calls []*Call
	// TimeJitter, if >0, offers explicit time steps as schedulable actions.
	TimeJitter []time.Duration
	ExtraActs  func() []simrt.Action
	// Invariant is evaluated after every step (cheap checks only).
	Invariant func()
}

type ServerInst struct {
	Addr   string
	Srv    *server.OvsdbServer
	DB     *DBWrap
	Gen    int
	Leader bool
	SID    string
}

type ClientInst struct {
	Name           string
	C              client.Client
	Log            *capLog
	Addrs          []string
	seenReconnects int
}

func NewEnv(sim *simrt.Sim, sch *Schema, property string) (*Env, error) {
	return NewEnvModels(sim, sch, property, -1)
}

// NewEnvModels: genVariant >= 0 selects the generated models of that schema variant.
func NewEnvModels(sim *simrt.Sim, sch *Schema, property string, genVariant int) (*Env, error) {
	e := &Env{Sim: sim, Sch: sch, Property: property, Servers: map[string]*ServerInst{}, digest: sha256.New(), t0: time.Now(), Probes: map[string]int{}, Faults: map[string]int{}, Known: map[string]int{}, MaxSteps: 200000, MaxSim: 30 * time.Minute, LivelockSteps: 25000}
	var err error
	e.LibSch, err = sch.LibSchema()
	if err != nil {
		return nil, fmt.Errorf("schema rejected by library decoder: %w", err)
	}
	if genVariant >= 0 {
		e.CM, e.Types, err = GeneratedClientModel(genVariant)
		e.Probes["generated_models"]++
	} else {
		e.CM, e.Types, err = sch.ClientModel()
	}
	if err != nil {
		return nil, err
	}
	var errs []error
	e.DBM, errs = model.NewDatabaseModel(e.LibSch, e.CM)
	if len(errs) > 0 {
		return nil, fmt.Errorf("model rejected: %v", errs)
	}
	sim.Trace = func(step int, key string, n int) {
		fmt.Fprintf(e.digest, "%d %s %d\n", step, key, n)
	}
	grep := os.Getenv("VERIF_GREP")
	sim.Net.Tap = func(l *simrt.Link, dir int, phase string, idx int, f []byte) {
		if phase == "send" {
			// error texts may print pointers (%v of a *int): not part of the behaviour
			fmt.Fprintf(e.digest, "F %s %d %d %s", l.Name, dir, idx, rePtr.ReplaceAll(f, []byte("0xPTR")))
		}
		if grep != "" && strings.Contains(string(f), grep) {
			e.Logf("FRAME %s %s dir=%d #%d: %s", phase, l.Name, dir, idx, trimStr(string(f), 1500))
		}
	}
	sim.Extra = e.extra
	return e, nil
}

// ShapeAdd folds a workload-shape element (operation kinds, outcome) into the
// run signature, so that distinctness counts histories as well as schedules.
func (e *Env) ShapeAdd(s string) {
	h := sha256.Sum256([]byte(fmt.Sprintf("%x|%s", e.shape, s)))
	e.shape = uint64(h[0]) | uint64(h[1])<<8 | uint64(h[2])<<16 | uint64(h[3])<<24 | uint64(h[4])<<32 | uint64(h[5])<<40 | uint64(h[6])<<48 | uint64(h[7])<<56
}

func (e *Env) Shape() uint64 { return e.shape }

func (e *Env) NextSeq() int { e.seq++; return e.seq }

func (e *Env) Now() time.Duration { return time.Since(e.t0) }

var rePtr = regexp.MustCompile(`0x[0-9a-f]{6,16}`)

func (e *Env) Logf(format string, a ...any) {
	l := rePtr.ReplaceAllString(fmt.Sprintf(format, a...), "0xPTR")
	fmt.Fprintf(e.digest, "L %s\n", l)
	if len(e.logLines) < 4000 {
		e.logLines = append(e.logLines, fmt.Sprintf("[%d t=%v] %s", e.Sim.Stats.Steps, e.Now(), l))
	}
}

func (e *Env) Digest() string { return hex.EncodeToString(e.digest.Sum(nil))[:16] }

func (e *Env) LogTail(n int) []string {
	if len(e.logLines) <= n {
		return e.logLines
	}
	return e.logLines[len(e.logLines)-n:]
}

// Violate records the first violation and stops the run.
func (e *Env) Violate(oracle, format string, a ...any) {
	e.ViolateK(oracle, "", format, a...)
}

// ViolateK is Violate with a key that says what specifically fails. A
// violation listed (open) in known_findings.json is counted and the run goes
// on, so that it cannot hide a different violation.
func (e *Env) ViolateK(oracle, key, format string, a ...any) {
	if e.Viol != nil {
		return
	}
	if f := matchFinding(e.Property, oracle, key); f != nil {
		e.Known[f.ID]++
		e.Logf("known finding %s (%s %s): %s", f.ID, oracle, key, trimStr(fmt.Sprintf(format, a...), 300))
		return
	}
	e.Viol = &Violation{Property: e.Property, Oracle: oracle, Key: key, Msg: fmt.Sprintf(format, a...), Step: e.Sim.Stats.Steps}
	e.Logf("VIOLATION %s [%s]: %s", oracle, key, e.Viol.Msg)
	e.stop = true
}

// Fatalf records a harness failure (never a violation).
func (e *Env) Fatalf(format string, a ...any) {
	if e.HarnessErr == "" {
		e.HarnessErr = fmt.Sprintf(format, a...)
		e.Logf("HARNESS ERROR: %s", e.HarnessErr)
	}
	e.stop = true
}

func (e *Env) Stopped() bool { return e.stop }

// ---- servers -------------------------------------------------------------------

// StartServer creates an in-memory database (wrapped) and a server listening on
// addr. If withServerDB is set, a _Server database is served as well.
func (e *Env) StartServer(addr string, withServerDB bool, reuse *DBWrap) *ServerInst {
	models := map[string]model.ClientDBModel{e.Sch.Name: e.CM}
	dbms := []model.DatabaseModel{e.DBM}
	if withServerDB {
		sm, err := serverdb.FullDatabaseModel()
		if err != nil {
			e.Fatalf("serverdb model: %v", err)
			return nil
		}
		models["_Server"] = sm
		sdbm, errs := model.NewDatabaseModel(serverdb.Schema(), sm)
		if len(errs) > 0 {
			e.Fatalf("serverdb model: %v", errs)
			return nil
		}
		dbms = append(dbms, sdbm)
	}
	var w *DBWrap
	if reuse != nil {
		w = reuse
	} else {
		w = NewDBWrap(inmemory.NewDatabase(models))
		w.Schemas[e.Sch.Name] = e.Sch
	}
	var srv *server.OvsdbServer
	var err error
	// creating a server over a database in use touches the database's locks: step the
	// simulation while one of them is held by a parked goroutine
	if !e.Do(func() {
		if reuse != nil {
			srv, err = newServerOverExisting(w, dbms...)
		} else {
			srv, err = server.NewOvsdbServer(w, dbms...)
		}
	}) {
		return nil
	}
	if err != nil {
		e.Fatalf("NewOvsdbServer: %v", err)
		return nil
	}
	gen := 0
	if old := e.Servers[addr]; old != nil {
		gen = old.Gen + 1
	}
	si := &ServerInst{Addr: addr, Srv: srv, DB: w, Gen: gen, Leader: true}
	srv.OnConnect(func(c *rpc2.Client) { e.Sim.RegisterPtr(c) })
	e.Servers[addr] = si
	simrt.Go0(e.Sim.Named(fmt.Sprintf("srv:%s:%d", addr, gen)), func() {
		if err := srv.Serve("tcp", addr); err != nil {
			e.Logf("server %s: Serve returned %v", addr, err)
		}
	})
	if !e.RunUntil(func() bool {
		ready := false
		e.Sim.Try(func() { ready = srv.Ready() })
		return ready
	}) {
		if !e.Stopped() {
			e.Fatalf("server %s did not become ready", addr)
		}
	}
	return si
}

// newServerOverExisting builds a server over a database that already holds the
// databases (restart with the same durable state). NewOvsdbServer calls
// CreateDatabase, which would replace the contents, so a pass-through wrapper
// ignores it for databases that exist.
func newServerOverExisting(w *DBWrap, dbms ...model.DatabaseModel) (*server.OvsdbServer, error) {
	return server.NewOvsdbServer(&keepDB{w}, dbms...)
}

type keepDB struct{ *DBWrap }

func (k *keepDB) CreateDatabase(name string, s ovsdb.DatabaseSchema) error {
	if k.DBWrap.Inner.Exists(name) {
		return nil
	}
	return k.DBWrap.Inner.CreateDatabase(name, s)
}

// ---- clients -------------------------------------------------------------------

type capLog struct {
	lines []string
	env   *Env
	name  string
}

func (c *capLog) Init(logr.RuntimeInfo)  {}
func (c *capLog) Enabled(level int) bool { return level <= 3 }
func (c *capLog) Info(level int, msg string, kv ...any) {
	if len(c.lines) < 500 {
		c.lines = append(c.lines, fmt.Sprintf("I%d %s %v", level, msg, kv))
	}
}
func (c *capLog) Error(err error, msg string, kv ...any) {
	if len(c.lines) < 500 {
		c.lines = append(c.lines, fmt.Sprintf("E %v %s %v", err, msg, kv))
	}
}
func (c *capLog) WithValues(kv ...any) logr.LogSink { return c }
func (c *capLog) WithName(string) logr.LogSink      { return c }

// Has reports whether a log line contains s.
func (c *capLog) Has(s string) bool {
	for _, l := range c.lines {
		if strings.Contains(l, s) {
			return true
		}
	}
	return false
}

type ClientOpts struct {
	Reconnect   bool
	Timeout     time.Duration
	BackoffStep time.Duration
	Inactivity  time.Duration
	LeaderOnly  bool
	Indexes     map[string][]model.ClientIndex
}

// constBackoff is a deterministic back-off policy (no math/rand jitter).
type constBackoff struct{ d time.Duration }

func (b *constBackoff) NextBackOff() time.Duration { return b.d }
func (b *constBackoff) Reset()                     {}

func (e *Env) NewClient(name string, addrs []string, o ClientOpts) *ClientInst {
	cl := &capLog{env: e, name: name}
	lg := logr.New(cl)
	cm := e.CM
	if o.Indexes != nil {
		cm.SetIndexes(o.Indexes)
	}
	opts := []client.Option{client.WithLogger(&lg)}
	for _, a := range addrs {
		opts = append(opts, client.WithEndpoint("tcp:"+a))
	}
	if o.BackoffStep == 0 {
		o.BackoffStep = 100 * time.Millisecond
	}
	if o.Timeout == 0 {
		o.Timeout = 2 * time.Second
	}
	var bo backoff.BackOff = &constBackoff{o.BackoffStep}
	if o.Inactivity > 0 {
		opts = append(opts, client.WithInactivityCheck(o.Inactivity, o.Timeout, bo))
	} else if o.Reconnect {
		opts = append(opts, client.WithReconnect(o.Timeout, bo))
	}
	if o.LeaderOnly {
		opts = append(opts, client.WithLeaderOnly(true))
	}
	c, err := client.NewOVSDBClient(cm, opts...)
	if err != nil {
		e.Fatalf("NewOVSDBClient: %v", err)
		return nil
	}
	ci := &ClientInst{Name: name, C: c, Log: cl, Addrs: addrs}
	e.Clients = append(e.Clients, ci)
	return ci
}

// ---- actor calls ---------------------------------------------------------------

// Call is one API call made by a workload goroutine.
type Call struct {
	Name     string
	done     atomic.Bool
	Err      error
	Panic    string
	StartSeq int
	EndSeq   int
	StartAt  time.Duration
	EndAt    time.Duration
	Deadline time.Duration // simulated time by which the call must have returned (0: none)
	Result   any
}

func (c *Call) Done() bool { return c.done.Load() }

// Go starts fn in a new simulated goroutine with a deterministic identity.
func (e *Env) Go(name string, fn func(c *Call)) *Call {
	c := &Call{Name: name, StartSeq: e.NextSeq(), StartAt: e.Now()}
	e.calls = append(e.calls, c)
	simrt.Go0(e.Sim.Named(name), func() {
		defer func() {
			if r := recover(); r != nil {
				c.Panic = fmt.Sprintf("%v\n%s", r, debug.Stack())
			}
			simrt.Atomic(func() {
				c.EndSeq = e.NextSeq()
				c.EndAt = e.Now()
			})
			c.done.Store(true)
		}()
		fn(c)
	})
	return c
}

// Outstanding lists calls that have not returned.
func (e *Env) Outstanding() []*Call {
	var out []*Call
	for _, c := range e.calls {
		if !c.Done() {
			out = append(out, c)
		}
	}
	return out
}

func (e *Env) extra() []simrt.Action {
	var acts []simrt.Action
	if e.ExtraActs != nil {
		acts = append(acts, e.ExtraActs()...)
	}
	for _, d := range e.TimeJitter {
		d := d
		acts = append(acts, simrt.Action{Key: "time:" + d.String(), Kind: "time", Weight: 10, Do: func() { e.Sim.Sleep(d) }})
	}
	return acts
}

// ---- run loop ------------------------------------------------------------------

// RunUntil steps the simulation until cond holds. When nothing is enabled it
// advances simulated time to the next event. Returns false on step/time budget
// exhaustion, on a stop (violation, harness error) or when the system is dead
// (nothing enabled and no timer fires within the remaining time budget).
func (e *Env) RunUntil(cond func() bool) bool {
	idleStreak := 0
	sameKey, sameN := "", 0
	for {
		if e.stop {
			return false
		}
		if e.Sim.Stats.Steps >= e.MaxSteps {
			e.OutOfSteps = true
			return false
		}
		synctest.Wait()
		if cond() {
			return true
		}
		key := e.Sim.Step(func() {})
		if e.Invariant != nil && !e.stop {
			e.Invariant()
		}
		if key != "" {
			idleStreak = 0
			if key == sameKey && strings.HasPrefix(key, "run:") {
				sameN++
				if e.Sim.LastWasTick {
					sameN += 400 // a tick stands for thousands of yields passed without blocking
				}
				if sameN > e.LivelockSteps {
					e.Livelock = key
					return false
				}
			} else {
				sameKey, sameN = key, 0
			}
			continue
		}
		// nothing enabled: let simulated time pass
		if e.Now() > e.MaxSim {
			return false
		}
		idleStreak++
		if idleStreak > 6 {
			return false
		}
		d := time.Duration(1) << uint(idleStreak*2) * time.Second
		e.Sim.Idle(d)
		synctest.Wait()
		if e.Sim.HasRunnable() || e.Sim.Net.InFlight() > 0 {
			idleStreak = 0
		}
	}
}

// Abort ends the run quietly (not a violation, not a harness error).
func (e *Env) Abort(why string) {
	if e.Aborted == "" {
		e.Aborted = why
		e.Logf("run aborted: %s", why)
	}
	e.Probes["aborted"]++
	e.stop = true
}

// RunSteps performs up to n scheduling steps (fewer if nothing is enabled).
func (e *Env) RunSteps(n int) {
	target := e.Sim.Stats.Steps + n
	e.RunUntil(func() bool { return e.Sim.Stats.Steps >= target || e.Quiet() })
}

// Do runs f on the simulator goroutine, stepping the simulation while f would have
// to wait for a lock held by a parked goroutine.
func (e *Env) Do(f func()) bool {
	done := false
	return e.RunUntil(func() bool {
		if done {
			return true
		}
		ok, _ := e.Sim.Try(f)
		done = ok
		return ok
	})
}

// Quiet reports whether nothing is runnable and nothing is in flight.
func (e *Env) Quiet() bool {
	return !e.Sim.HasRunnable() && e.Sim.Net.InFlight() == 0
}

// Settle runs until nothing is runnable and no frame is in flight (without
// advancing time).
func (e *Env) Settle() bool {
	return e.RunUntil(func() bool { return e.Quiet() })
}

// WaitCall runs until the call has returned.
func (e *Env) WaitCall(c *Call) bool {
	return e.RunUntil(func() bool { return c.Done() })
}

// ConnectClient connects a client (in its own actor goroutine) and waits.
func (e *Env) ConnectClient(ci *ClientInst, timeout time.Duration) error {
	c := e.Go(ci.Name+".connect", func(c *Call) {
		ctx, cancel := context.WithTimeout(context.Background(), timeout)
		defer cancel()
		c.Err = ci.C.Connect(ctx)
	})
	if !e.WaitCall(c) {
		return fmt.Errorf("connect did not return")
	}
	if c.Panic != "" {
		return fmt.Errorf("connect panicked: %s", c.Panic)
	}
	return c.Err
}

// SortedKeys returns the sorted keys of a map with string keys.
func SortedKeys[V any](m map[string]V) []string {
	ks := make([]string, 0, len(m))
	for k := range m {
		ks = append(ks, k)
	}
	sort.Strings(ks)
	return ks
}
