package harness

import (
	"encoding/json"
	"fmt"
	"sort"
	"strings"

	"github.com/ovn-org/libovsdb/simrt"
)

// Scenario S1 "txn-refine": the built-in server, one sequential writer raw
// peer, 0-3 observer raw peers with random monitor requests. Serves C02 C03
// C04 C06 C07 C11 C15 (each run enables only its own property's oracles).

const epMain = "ep0:6640"

type ActRes struct {
	Null    bool
	Err     string
	Details string
	UUID    string
	Count   int
	HasCnt  bool
	Rows    []any
	HasRows bool
}

type TxnOutcome struct {
	Ops       []Op
	Meta      TxnMeta
	Call      *RawCall
	RPCError  string
	Res       []ActRes
	Failed    bool // any error (operation or commit)
	OpFailAt  int  // index of failing op, -1
	CommitErr string
	Before    DBState
	After     DBState
	RefsBef   map[string]string
	RefsAft   map[string]string
	Commits   int // commits recorded during this transaction
}

func decodeResults(raw json.RawMessage) ([]ActRes, error) {
	var arr []json.RawMessage
	if err := json.Unmarshal(raw, &arr); err != nil {
		return nil, fmt.Errorf("result is not an array: %s", raw)
	}
	out := make([]ActRes, len(arr))
	for i, r := range arr {
		if string(r) == "null" {
			out[i].Null = true
			continue
		}
		var o map[string]any
		if err := json.Unmarshal(r, &o); err != nil {
			return nil, fmt.Errorf("result %d is not an object: %s", i, r)
		}
		if e, ok := o["error"].(string); ok {
			out[i].Err = e
		}
		if d, ok := o["details"].(string); ok {
			out[i].Details = d
		}
		if u, ok := o["uuid"].([]any); ok && len(u) == 2 {
			out[i].UUID, _ = u[1].(string)
		}
		if c, ok := o["count"].(float64); ok {
			out[i].Count = int(c)
			out[i].HasCnt = true
		}
		if rows, ok := o["rows"].([]any); ok {
			out[i].Rows = rows
			out[i].HasRows = true
		}
	}
	return out, nil
}

// observer is a raw peer with one monitor.
type observer struct {
	peer    *RawPeer
	req     *MonReq
	spec    MonSpec
	seen    int // notes consumed so far
	replica DBState
	ready   bool
}

type s1 struct {
	e    *Env
	cfg  *RunCfg
	srv  *ServerInst
	w    *RawPeer
	twin *ServerInst // C02: a second server that is never sent a failing transaction
	tw   *RawPeer
	// C02: the last failed transaction minus the planted operations, and the
	// generator's note about the current one
	retry    []Op
	lastMeta TxnMeta
	obs  []*observer
	db   string
	last DBState
}

// snapshot reads the real database from the simulator goroutine.
func (e *Env) SnapshotDB(si *ServerInst) (DBState, map[string]string, bool) {
	var st DBState
	var refs map[string]string
	ok, why := e.Sim.Try(func() {
		st = Snapshot(si.DB.Inner, e.Sch.Name, e.Sch)
		refs = SnapshotRefs(si.DB.Inner, e.Sch.Name, st)
	})
	if !ok {
		e.Logf("snapshot skipped: %s", why)
	}
	return st, refs, ok
}

func cfgS1(prop string, seed uint64, tier string) *RunCfg {
	r := simrt.NewRand(seed ^ 0x5151)
	c := &RunCfg{Property: prop, Scenario: "S1", Seed: seed, Knobs: map[string]int{}}
	c.SchemaVariant = r.Intn(3)
	c.YieldPermil = []int{0, 0, 30, 150}[r.Intn(4)]
	c.PermuteMaps = r.Intn(10) != 0
	c.Stick = []int{1, 4, 16}[r.Intn(3)]
	prof := "mixed"
	switch prop {
	case "C02":
		prof = "fail"
	case "C03":
		prof = []string{"valid", "valid", "mixed", "samerow", "index"}[r.Intn(5)]
	case "C04":
		prof = []string{"refs", "refs", "mixed-sw"}[r.Intn(3)]
		if c.SchemaVariant == 1 && r.Intn(3) != 0 {
			c.SchemaVariant = []int{0, 2}[r.Intn(2)] // garbage collection needs non-root tables
		}
	case "C06":
		prof = []string{"index", "index", "mixed-sw"}[r.Intn(3)]
		if c.SchemaVariant == 2 {
			c.SchemaVariant = r.Intn(2) // needs indexes
		}
	case "C07":
		prof = []string{"mixed-sw", "valid-sw", "refs", "samerow"}[r.Intn(4)]
	case "C11":
		prof = "samerow"
	case "C15":
		prof = "named"
	}
	n := 8 + r.Intn(14)
	if tier == "thorough" {
		n = 10 + r.Intn(30)
	}
	for i := 0; i < n; i++ {
		p := prof
		if i < 3 && prof != "named" {
			p = "valid-sw" // build up some state first
			if prop == "C03" {
				p = "valid"
			}
		}
		c.Txns = append(c.Txns, TxnSpec{Actor: "w", GenSeed: r.Uint64(), Profile: p})
	}
	nobs := 0
	switch prop {
	case "C07", "C11":
		nobs = 1 + r.Intn(3)
	case "C02":
		nobs = 1 + r.Intn(2)
		c.Knobs["twin"] = r.Intn(2)
	}
	sch := KitchenSink(c.SchemaVariant)
	for i := 0; i < nobs; i++ {
		c.Monitors = append(c.Monitors, randMonSpec(r, sch, fmt.Sprintf("o%d", i), r.Intn(n/2+1), prop == "C11"))
	}
	return c
}

func randMonSpec(r *simrt.Rand, sch *Schema, owner string, after int, allKinds bool) MonSpec {
	ms := MonSpec{Owner: owner, AfterTxn: after, Tables: map[string]*MonTable{}}
	ms.Method = []string{"monitor", "monitor_cond", "monitor_cond_since"}[r.Intn(3)]
	for _, tn := range sch.TableNames {
		if r.Intn(3) == 0 && len(ms.Tables) > 0 {
			continue
		}
		t := sch.Tables[tn]
		mt := &MonTable{Initial: true, Insert: true, Delete: true, Modify: true}
		if r.Intn(2) == 0 {
			mt.Columns = append([]string(nil), t.ColNames...)
			mt.NoCols = r.Intn(2) == 0 // RFC 7047 4.1.5: no "columns" member = all columns
		} else {
			for _, c := range t.ColNames {
				if r.Intn(2) == 0 {
					mt.Columns = append(mt.Columns, c)
				}
			}
			if len(mt.Columns) == 0 {
				mt.Columns = []string{t.ColNames[r.Intn(len(t.ColNames))]}
			}
		}
		if !allKinds && r.Intn(4) == 0 {
			mt.Initial = r.Intn(2) == 0
			mt.Insert = r.Intn(3) != 0
			mt.Delete = r.Intn(3) != 0
			mt.Modify = r.Intn(3) != 0
		} else if r.Intn(3) == 0 {
			mt.NoSel = true
		}
		ms.Tables[tn] = mt
	}
	return ms
}

func (s *s1) startObserver(spec MonSpec) *observer {
	e := s.e
	p, err := e.NewRawPeer(spec.Owner, epMain)
	if err != nil {
		e.Fatalf("observer dial: %v", err)
		return nil
	}
	req := &MonReq{Method: spec.Method, Cookie: spec.Owner, Tables: spec.Tables}
	o := &observer{peer: p, req: req, spec: spec}
	params := []any{s.db, spec.Owner, req.Wire()}
	if spec.Method == "monitor_cond_since" {
		params = append(params, zeroUUID)
	}
	call := p.Call(spec.Method, params)
	if !e.RunUntil(func() bool { return call.Done }) {
		return nil
	}
	if call.ErrorStr != "" {
		e.Fatalf("monitor request rejected: %s", call)
		return nil
	}
	raw := call.Result
	v2 := spec.Method != "monitor"
	if spec.Method == "monitor_cond_since" {
		var arr []json.RawMessage
		if err := json.Unmarshal(raw, &arr); err != nil || len(arr) != 3 {
			e.Violate(s.e.Property+".reply-shape", "monitor_cond_since reply is not a 3-element array: %s", raw)
			return nil
		}
		raw = arr[2]
	}
	d, err := DecodeTableUpdates(e.Sch, raw, v2)
	if err != nil {
		e.Violate(e.Property+".initial-decode", "initial monitor reply of %s (%s) cannot be decoded: %v", spec.Owner, spec.Method, err)
		return nil
	}
	o.replica = DBState{}
	for t := range req.Tables {
		o.replica[t] = TableData{}
	}
	if err := req.Apply(e.Sch, o.replica, d); err != nil {
		e.Violate(e.Property+".initial-apply", "initial monitor reply of %s (%s) cannot be applied: %v", spec.Owner, spec.Method, err)
		return nil
	}
	o.ready = true
	o.seen = len(p.Notes)
	s.obs = append(s.obs, o)
	e.Probes["observer_"+spec.Method]++
	return o
}

func runS1(e *Env, cfg *RunCfg) {
	s := &s1{e: e, cfg: cfg, db: e.Sch.Name}
	s.srv = e.StartServer(epMain, false, nil)
	if e.Stopped() {
		return
	}
	var err error
	s.w, err = e.NewRawPeer("w", epMain)
	if err != nil {
		e.Fatalf("writer dial: %v", err)
		return
	}
	if e.Property == "C02" && cfg.Knob("twin", 0) == 1 {
		s.twin = e.StartServer(epTwin, false, nil)
		if e.Stopped() {
			return
		}
		if s.tw, err = e.NewRawPeer("tw", epTwin); err != nil {
			e.Fatalf("twin dial: %v", err)
			return
		}
	}
	for i, txn := range cfg.Txns {
		for _, m := range cfg.Monitors {
			if m.AfterTxn == i {
				s.startObserver(m)
				if e.Stopped() {
					return
				}
			}
		}
		out := s.transact(i, txn)
		if out == nil || e.Stopped() {
			return
		}
		s.check(i, out)
		if e.Stopped() {
			return
		}
		if s.twin != nil && (!out.Failed || len(out.Meta.Culprits) == 0) {
			// a transaction that fails although nothing was planted to make it
			// fail goes to the twin as well: it must fail there too (a failure
			// that only the server with a history of planted failures reports
			// is a trace of those)
			s.twinStep(i, out)
			if e.Stopped() {
				return
			}
		}
	}
}

const epTwin = "twin:6640"

// twinStep sends a transaction that succeeded on the main server (or failed
// without having been made to) to the twin, which has seen every earlier
// successful transaction and none of those planted to fail: "a later transaction behaves as if the failed one had never been
// submitted" means reply, contents and reference index must agree.
func (s *s1) twinStep(i int, out *TxnOutcome) {
	e := s.e
	params := []any{s.db}
	for _, op := range out.Ops {
		params = append(params, op)
	}
	call := s.tw.Call("transact", params)
	if !e.RunUntil(func() bool { return call.Done }) || !e.Settle() {
		if !e.Stopped() {
			e.ViolateK("C02.twin-divergence", "hang", "transaction %d was answered by the server that saw %d failed transactions but never by a server that did not\nops: %s", i, e.Probes["txn_failed"], shortOps(out.Ops))
		}
		return
	}
	e.Probes["c02_twin_compared"]++
	var got string
	if call.ErrorStr != "" {
		got = "rpc-error:" + call.ErrorStr
	} else if res, err := decodeResults(call.Result); err != nil {
		got = "undecodable:" + err.Error()
	} else {
		got = canonResults(e.Sch, out.Ops, res)
	}
	if want := canonResults(e.Sch, out.Ops, out.Res); got != want {
		e.ViolateK("C02.twin-divergence", "reply", "transaction %d is answered differently by a server that saw %d failed transactions before it and by one that saw none\nwith failures: %s\nwithout:       %s\nops: %s\nbefore:\n%s", i, e.Probes["txn_failed"], want, got, shortOps(out.Ops), trimStr(out.Before.String(), 2500))
		return
	}
	st, refs, ok := e.SnapshotDB(s.twin)
	if !ok {
		e.Fatalf("cannot snapshot the twin after transaction %d", i)
		return
	}
	if d := DiffStates(out.After, st, e.Sch.TableNames, nil); d != "" {
		e.ViolateK("C02.twin-divergence", "contents", "after transaction %d the database that saw %d failed transactions differs from one that saw none (with vs without):\n%s\nops: %s", i, e.Probes["txn_failed"], d, shortOps(out.Ops))
		return
	}
	if d := diffRefs(out.RefsAft, refs); d != "" {
		e.ViolateK("C02.twin-divergence", "refs", "after transaction %d the reference index of the database that saw %d failed transactions differs from one that saw none (with vs without):\n%s\nops: %s", i, e.Probes["txn_failed"], d, shortOps(out.Ops))
	}
}

// transact issues one generated transaction and waits for quiescence.
func (s *s1) transact(i int, txn TxnSpec) *TxnOutcome {
	e := s.e
	before, refsB, ok := e.SnapshotDB(s.srv)
	if !ok {
		e.Fatalf("cannot snapshot before transaction %d", i)
		return nil
	}
	prof := ProfileByName(txn.Profile)
	prof.BigArith = e.Property == "C03"
	if s.twin != nil {
		prof.ExplicitID = 1000 // the twin must create the same rows
	}
	g := NewGen(e.Sch, txn.GenSeed, before, prof, fmt.Sprintf("t%d", i))
	ops, meta := g.Txn()
	ops = NormalizeOps(ops)
	if e.Property == "C02" {
		// what a client does after a failed transaction: submit it again without
		// the operations that made it fail (same rows, same values, same uuids)
		if s.retry != nil && simrt.NewRand(txn.GenSeed^0x7e7).Intn(3) == 0 {
			ops, meta = s.retry, TxnMeta{Planted: "retry-without-culprit"}
			e.Probes["c02_retry_without_culprit"]++
		}
		s.retry = nil
	}
	s.lastMeta = meta
	if s.twin != nil {
		for k, op := range ops {
			if _, has := op["uuid"]; !has && op["op"] == "insert" {
				op["uuid"] = fmt.Sprintf("%08x-7717-4000-a000-%012d", i+1, k)
			}
		}
	}
	out := &TxnOutcome{Ops: ops, Meta: meta, Before: before, RefsBef: refsB, OpFailAt: -1}
	commits0 := len(s.srv.DB.Commits)
	params := []any{s.db}
	for _, op := range ops {
		params = append(params, op)
	}
	out.Call = s.w.Call("transact", params)
	e.Logf("txn %d (%s, planted=%q): %s", i, txn.Profile, meta.Planted, mustJSON(ops))
	if !e.RunUntil(func() bool { return out.Call.Done }) {
		if !e.Stopped() {
			st := libStacks()
			key := calleeOf(st, "database/transaction.(*Transaction).Transact")
			if key == "" {
				key = calleeOf(st, "server.(*OvsdbServer).Transact")
			}
			kind := "dead-lock"
			if e.Livelock != "" {
				kind = "endless loop"
			}
			msg := fmt.Sprintf("transaction %d never completes: %s in %s (after %d steps; blocked: %v)\nops: %s\nbefore:\n%s\n%s", i, kind, key, e.Sim.Stats.Steps, e.Sim.Blocked(), shortOps(ops), trimStr(before.String(), 2500), trimStr(st, 5000))
			if e.Property == "C04" || e.Property == "C17" {
				e.ViolateK(e.Property+".txn-hang", key, "%s", msg)
				if !e.Stopped() {
					e.Abort("known: " + key)
				}
			} else if key != "" {
				e.Abort("server never answers (" + kind + " in " + key + "): C04's concern")
			} else {
				// no goroutine of the server is working on it any more: the reply was
				// lost inside the library (for instance because it could not be encoded)
				e.ViolateK(e.Property+".txn-hang", "no-answer", "%s", msg)
			}
		}
		return nil
	}
	if !e.Settle() {
		if !e.Stopped() {
			e.Fatalf("no quiescence after transaction %d", i)
		}
		return nil
	}
	out.Commits = len(s.srv.DB.Commits) - commits0
	if out.Call.ErrorStr != "" {
		out.RPCError = out.Call.ErrorStr
		out.Failed = true
	} else {
		res, err := decodeResults(out.Call.Result)
		if err != nil {
			out.RPCError = err.Error()
			out.Failed = true
		}
		out.Res = res
		for k, r := range res {
			if r.Err != "" {
				out.Failed = true
				if k < len(ops) {
					if out.OpFailAt < 0 {
						out.OpFailAt = k
					}
				} else {
					out.CommitErr = r.Err
				}
			}
		}
	}
	e.Logf("txn %d reply: %s %s", i, out.Call.Result, out.RPCError)
	after, refsA, ok := e.SnapshotDB(s.srv)
	if !ok {
		e.Fatalf("cannot snapshot after transaction %d", i)
		return nil
	}
	out.After, out.RefsAft = after, refsA
	{
		var sb strings.Builder
		for _, op := range ops {
			fmt.Fprintf(&sb, "%v:%v,", op["op"], op["table"])
		}
		fmt.Fprintf(&sb, "|%v|%d|%s", out.Failed, out.OpFailAt, errClass(out.CommitErr))
		e.ShapeAdd(sb.String())
	}
	if out.Failed && e.Property == "C02" && len(s.lastMeta.Culprits) > 0 && len(s.lastMeta.Culprits) < len(ops) {
		skip := map[int]bool{}
		for _, k := range s.lastMeta.Culprits {
			skip[k] = true
		}
		s.retry = nil
		for k, op := range ops {
			if !skip[k] {
				s.retry = append(s.retry, op)
			}
		}
	}
	if out.Failed {
		e.Probes["txn_failed"]++
		if out.CommitErr != "" {
			e.Probes["txn_commit_rejected"]++
		}
	} else {
		e.Probes["txn_committed"]++
	}
	return out
}

func shortOps(ops []Op) string {
	b := mustJSON(ops)
	if len(b) > 1500 {
		return string(b[:1500]) + "..."
	}
	return string(b)
}

func (s *s1) check(i int, out *TxnOutcome) {
	e := s.e
	switch e.Property {
	case "C02":
		s.checkC02(i, out)
	case "C03":
		s.checkC03(i, out)
	case "C04":
		s.checkC04(i, out)
	case "C06":
		s.checkC06(i, out)
	case "C07", "C11":
		s.checkC07(i, out, e.Property == "C11")
	case "C15":
		s.checkC15(i, out)
	}
	// consume notes
	for _, o := range s.obs {
		o.seen = len(o.peer.Notes)
	}
}

// reported collects the UUIDs the server reported for inserts.
func (out *TxnOutcome) reported() map[int]string {
	m := map[int]string{}
	for i, r := range out.Res {
		if i < len(out.Ops) && out.Ops[i]["op"] == "insert" && r.UUID != "" {
			m[i] = r.UUID
		}
	}
	return m
}

func errClass(s string) string {
	s = strings.ToLower(s)
	switch {
	case strings.Contains(s, "referential"):
		return "referential integrity violation"
	case strings.Contains(s, "constraint"):
		return "constraint violation"
	case strings.Contains(s, "timed out"):
		return "timed out"
	}
	return "error"
}

func sortedStrings(m map[string]bool) []string {
	var o []string
	for k := range m {
		o = append(o, k)
	}
	sort.Strings(o)
	return o
}

// libStacks returns the stacks of goroutines that are inside libovsdb code.
func libStacks() string {
	var out []string
	for _, g := range strings.Split(simrt.AllStacks(), "\n\n") {
		if strings.Contains(g, "ovn-org/libovsdb/") && !strings.Contains(g, "harness.RunOne") {
			out = append(out, g)
		}
	}
	return strings.Join(out, "\n\n")
}

// calleeOf returns the function called by the first frame whose name ends in
// fn (i.e. the frame just above it in a stack dump), in any goroutine.
func calleeOf(stacks, fn string) string {
	for _, g := range strings.Split(stacks, "\n\n") {
		lines := strings.Split(g, "\n")
		var funcs []string
		for _, l := range lines {
			if strings.HasPrefix(l, "\t") || strings.HasPrefix(l, "goroutine ") || strings.HasPrefix(l, "created by") {
				continue
			}
			if j := strings.LastIndex(l, "("); j > 0 {
				funcs = append(funcs, l[:j])
			}
		}
		for k, f := range funcs {
			if strings.HasSuffix(f, fn) && k > 0 {
				return strings.TrimPrefix(funcs[k-1], "github.com/ovn-org/libovsdb/")
			}
		}
	}
	return ""
}
