package harness

import (
	"encoding/json"
	"fmt"
	"reflect"
	"sort"
	"strings"

	"github.com/ovn-org/libovsdb/cache"
	"github.com/ovn-org/libovsdb/model"
	"github.com/ovn-org/libovsdb/ovsdb"
)

func jsonUnmarshal(b []byte, v any) error { return json.Unmarshal(b, v) }

// ---- C05: indexes agree with contents ------------------------------------------------

func groupKey(t *Table, r Row, cols []model.ColumnKey) string {
	var parts []string
	for _, ck := range cols {
		v := r[ck.Column]
		if ck.Key != nil {
			// value of the map at that key (the value type's zero value when absent)
			found := "<zero>"
			if c := t.Columns[ck.Column]; c != nil && c.Type.Val != nil {
				found = defaultValue(&ColType{Key: c.Type.Val, Min: 1, Max: 1}).Set[0].String()
			}
			for _, p := range v.Map {
				if p.K.S == fmt.Sprint(ck.Key) || fmt.Sprint(p.K.I) == fmt.Sprint(ck.Key) {
					found = p.V.String()
				}
			}
			parts = append(parts, found)
			continue
		}
		parts = append(parts, v.String())
	}
	return strings.Join(parts, "|")
}

func indexName(cols []model.ColumnKey) []string {
	var names []string
	for _, ck := range cols {
		if ck.Key != nil {
			names = append(names, fmt.Sprintf("%s|%v", ck.Column, ck.Key))
		} else {
			names = append(names, ck.Column)
		}
	}
	return names
}

// checkRowCacheIndexes compares every index of a RowCache with a scan of its rows.
func checkRowCacheIndexes(e *Env, rc *cache.RowCache, t *Table, clientIdx []model.ClientIndex, who string, monitored []string) {
	mon := map[string]bool{}
	for _, c := range monitored {
		mon[c] = true
	}
	scan := TableData{}
	models := rc.Rows()
	for u, m := range models {
		r, _ := RowFromModel(t, m)
		scan[u] = r
	}
	// read-only queries with several conditions over indexed columns go first: they
	// must neither miss rows nor disturb the indexes compared below
	if t.Name == "Root" && mon["num"] && mon["flag"] && mon["name"] {
		n := 0
		for _, u := range SortedKeys(scan) {
			if n >= 3 {
				break
			}
			n++
			r := scan[u]
			if len(r["num"].Set) != 1 || len(r["flag"].Set) != 1 || len(r["name"].Set) != 1 {
				continue
			}
			num, flag, name := int(r["num"].Set[0].I), r["flag"].Set[0].B, r["name"].Set[0].S
			for _, q := range []struct {
				conds []ovsdb.Condition
				match func(x Row) bool
			}{
				{[]ovsdb.Condition{ovsdb.NewCondition("num", ovsdb.ConditionEqual, num), ovsdb.NewCondition("flag", ovsdb.ConditionEqual, !flag)},
					func(x Row) bool {
						return len(x["num"].Set) == 1 && int(x["num"].Set[0].I) == num && len(x["flag"].Set) == 1 && x["flag"].Set[0].B == !flag
					}},
				{[]ovsdb.Condition{ovsdb.NewCondition("num", ovsdb.ConditionEqual, num), ovsdb.NewCondition("name", ovsdb.ConditionEqual, name)},
					func(x Row) bool {
						return len(x["num"].Set) == 1 && int(x["num"].Set[0].I) == num && len(x["name"].Set) == 1 && x["name"].Set[0].S == name
					}},
			} {
				got, err := rc.RowsByCondition(q.conds)
				if err != nil {
					continue
				}
				var want, have []string
				for v, x := range scan {
					if q.match(x) {
						want = append(want, v)
					}
				}
				for v := range got {
					have = append(have, v)
				}
				sort.Strings(want)
				sort.Strings(have)
				e.Probes["c05_condition_query"]++
				if strings.Join(want, ",") != strings.Join(have, ",") {
					e.ViolateK("C05.condition-lookup", "two-conditions", "%s: RowsByCondition(%v) on table %s returned %v, a scan gives %v", who, q.conds, t.Name, have, want)
					return
				}
			}
		}
	}
	var specs [][]model.ColumnKey
	schemaN := len(t.Indexes)
	for _, idx := range t.Indexes {
		var cks []model.ColumnKey
		for _, c := range idx {
			cks = append(cks, model.ColumnKey{Column: c})
		}
		specs = append(specs, cks)
	}
	for _, ci := range clientIdx {
		specs = append(specs, ci.Columns)
	}
	for k, cks := range specs {
		skip := false
		for _, ck := range cks {
			if !mon[ck.Column] {
				skip = true // the cache holds no values for this column: nothing to index
			}
		}
		if skip {
			continue
		}
		got, err := rc.Index(indexName(cks)...)
		if err != nil {
			e.Fatalf("%s: Index(%v): %v", who, indexName(cks), err)
			return
		}
		want := map[string][]string{}
		for u, r := range scan {
			g := groupKey(t, r, cks)
			want[g] = append(want[g], u)
		}
		canon := func(groups [][]string) string {
			var gs []string
			for _, g := range groups {
				sort.Strings(g)
				gs = append(gs, strings.Join(g, ","))
			}
			sort.Strings(gs)
			return strings.Join(gs, " | ")
		}
		var wg, gg [][]string
		for _, g := range want {
			wg = append(wg, g)
		}
		for _, g := range got {
			if len(g) > 0 {
				gg = append(gg, append([]string(nil), g...))
			}
		}
		kind := "client"
		if k < schemaN {
			kind = "schema"
		}
		e.Probes["c05_index_compared"]++
		if len(scan) > 0 {
			e.Probes["checked_nonempty"]++
		}
		if canon(wg) != canon(gg) {
			key := kind + "-index"
			// which way round: a cached row unreachable, or an entry leading nowhere
			inIdx := map[string]bool{}
			for _, g := range gg {
				for _, u := range g {
					inIdx[u] = true
				}
			}
			for u := range scan {
				if !inIdx[u] {
					key += ":row-unreachable"
					break
				}
			}
			e.ViolateK("C05.index-vs-scan", key, "%s: %s index %v of table %s disagrees with a scan of the cache\nindex groups: %s\nscan groups:  %s", who, kind, indexName(cks), t.Name, canon(gg), canon(wg))
			return
		}
	}
	// near-miss probes on multi-column schema indexes: the values of one row's
	// columns combined with another row's must lead to a row only if a scan finds one
	for k, idx := range t.Indexes {
		if k == 0 || len(idx) < 2 || len(scan) == 0 || !mon[t.Indexes[0][0]] {
			continue
		}
		first := t.Columns[t.Indexes[0][0]]
		ok := first != nil && first.Type.Key.Type == "string" && len(t.Indexes[0]) == 1
		vals := make([][]Value, len(idx))
		for i, c := range idx {
			if !mon[c] {
				ok = false
			}
			seen := map[string]bool{}
			for _, u := range SortedKeys(scan) {
				if v := scan[u][c]; !seen[v.String()] && len(v.Set) == 1 {
					seen[v.String()] = true
					vals[i] = append(vals[i], v)
				}
			}
		}
		if !ok {
			continue
		}
		var ty reflect.Type
		for _, m := range models {
			ty = reflect.TypeOf(m).Elem()
			break
		}
		tuple := make([]Value, len(idx))
		n := 0
		var rec func(i int)
		rec = func(i int) {
			if e.Stopped() || n >= 24 {
				return
			}
			if i == len(idx) {
				n++
				probe := Row{t.Indexes[0][0]: SetOf(AStr("\x01no-such-value"))}
				for j, c := range idx {
					probe[c] = tuple[j]
				}
				var want []string
				for _, u := range SortedKeys(scan) {
					same := true
					for j, c := range idx {
						if scan[u][c].String() != tuple[j].String() {
							same = false
						}
					}
					if same {
						want = append(want, u)
					}
				}
				gu, _, err := rc.RowByModel(ModelFromRow(t, ty, "", probe))
				e.Probes["c05_near_miss_probe"]++
				if err != nil || (len(want) == 0 && gu != "") || (len(want) == 1 && gu != want[0]) {
					e.ViolateK("C05.lookup", "near-miss:schema-index", "%s: RowByModel on table %s with %v = %v returned (%q, %v); a scan of the cache finds %v", who, t.Name, idx, tuple, gu, err, want)
				}
				return
			}
			for _, v := range vals[i] {
				tuple[i] = v
				rec(i + 1)
			}
		}
		rec(0)
		if e.Stopped() {
			return
		}
	}
	// lookups by model
	for _, u := range SortedKeys(scan) {
		m := models[u]
		// by uuid only
		probe := reflect.New(reflect.TypeOf(m).Elem())
		probe.Elem().FieldByName("UUID").SetString(u)
		gu, gm, err := rc.RowByModel(probe.Interface())
		if err != nil || gm == nil || gu != u {
			e.ViolateK("C05.lookup", "by-uuid", "%s: RowByModel by uuid %s/%s returned (%q, %v, %v)", who, t.Name, u, gu, gm, err)
			return
		}
		// by schema index values only (no uuid): must find this very row
		idxMonitored := len(t.Indexes) > 0
		if idxMonitored {
			for _, c := range t.Indexes[0] {
				if !mon[c] {
					idxMonitored = false
				}
			}
		}
		if idxMonitored {
			p2 := reflect.New(reflect.TypeOf(m).Elem())
			p2.Elem().Set(reflect.ValueOf(m).Elem())
			p2.Elem().FieldByName("UUID").SetString("")
			gu, gm, err := rc.RowByModel(p2.Interface())
			if err != nil || gm == nil || gu != u {
				e.ViolateK("C05.lookup", "by-schema-index", "%s: RowByModel by the index values of %s/%s returned (%q, found=%v, %v); row: %s", who, t.Name, u, gu, gm != nil, err, scan[u])
				return
			}
		}
		// through the first usable single-column client index: a search model that
		// carries this row's values (no uuid, schema index columns blanked so that no
		// schema index matches) must lead to exactly the rows holding the same value
		if ci := firstScalarClientIndex(t, clientIdx, mon); ci != "" && len(t.Indexes) > 0 {
			pr := Row{}
			for cn, v := range scan[u] {
				pr[cn] = v
			}
			usable := true
			for k, idx := range t.Indexes {
				for _, cn := range idx {
					switch {
					case !mon[cn]:
						usable = false
					case t.Columns[cn].Type.Key.Type == "string":
						pr[cn] = SetOf(AStr(fmt.Sprintf("\x03none-%d", k)))
					default:
						pr[cn] = SetOf(AInt(-8000000 - int64(k)))
					}
				}
			}
			if usable {
				got, err := rc.RowsByModels([]model.Model{ModelFromRow(t, reflect.TypeOf(m).Elem(), "", pr)})
				var want, have []string
				for v, x := range scan {
					if x[ci].String() == scan[u][ci].String() {
						want = append(want, v)
					}
				}
				for v := range got {
					have = append(have, v)
				}
				sort.Strings(want)
				sort.Strings(have)
				e.Probes["c05_client_index_lookup"]++
				if err != nil || strings.Join(want, ",") != strings.Join(have, ",") {
					e.ViolateK("C05.lookup", "by-client-index", "%s: RowsByModels with the %s value of %s/%s (%s) returned %v (%v); a scan finds %v", who, ci, t.Name, u, scan[u][ci], have, err, want)
					return
				}
			}
		}
		e.Probes["c05_lookup_checked"]++
	}
}

// firstScalarClientIndex returns the column of the first client index if it is
// a single scalar column that is monitored.
func firstScalarClientIndex(t *Table, clientIdx []model.ClientIndex, mon map[string]bool) string {
	if len(clientIdx) == 0 || len(clientIdx[0].Columns) != 1 || clientIdx[0].Columns[0].Key != nil {
		return ""
	}
	cn := clientIdx[0].Columns[0].Column
	c := t.Columns[cn]
	if c == nil || !c.Type.IsScalar() || !mon[cn] {
		return ""
	}
	return cn
}

// checkCacheIndexes checks every table of a client's cache.
func checkCacheIndexes(e *Env, ci *ClientInst, who string, tables map[string][]string) {
	ok, why := e.Sim.Try(func() {
		tc := ci.C.Cache()
		if tc == nil {
			return
		}
		cidx := tc.DatabaseModel().Client()
		for _, tn := range e.Sch.TableNames {
			rc := tc.Table(tn)
			if rc == nil {
				continue
			}
			if tables[tn] == nil {
				continue
			}
			checkRowCacheIndexes(e, rc, e.Sch.Tables[tn], cidx.Indexes(tn), who, tables[tn])
			if e.Stopped() {
				return
			}
		}
	})
	if !ok {
		e.Logf("C05: cache busy: %s", why)
	}
}

// checkServerIndexes checks the schema indexes of the server's database cache
// through the Database interface: every stored row must be found by its own
// index values, and a probe carrying a row's index values under another uuid
// must collide with exactly that row.
func checkServerIndexes(e *Env, si *ServerInst, st DBState, oracle string) {
	if len(dupIndexTuples(e.Sch, st)) > 0 {
		// the database itself stores a duplicate index tuple: that is C06's defect, and the index cannot agree with such contents
		e.Abort("duplicate index tuple stored in the database: C06's concern")
		return
	}
	ok, why := e.Sim.Try(func() {
		for _, tn := range e.Sch.TableNames {
			t := e.Sch.Tables[tn]
			if len(t.Indexes) == 0 {
				continue
			}
			models, err := si.DB.Inner.List(e.Sch.Name, tn)
			if err != nil {
				e.Fatalf("list: %v", err)
				return
			}
			for _, u := range SortedKeys(models) {
				m := models[u]
				if err := si.DB.Inner.CheckIndexes(e.Sch.Name, tn, m); err != nil {
					e.ViolateK(oracle, "row-collides-with-itself-or-stale-entry", "server database: stored row %s/%s collides in a schema index: %v", tn, u, err)
					return
				}
				p := reflect.New(reflect.TypeOf(m).Elem())
				p.Elem().Set(reflect.ValueOf(m).Elem())
				p.Elem().FieldByName("UUID").SetString("00000000-dead-4bee-8000-000000000000")
				err := si.DB.Inner.CheckIndexes(e.Sch.Name, tn, p.Interface())
				ie, isIdx := err.(*cache.ErrIndexExists)
				e.Probes["c05_server_probe"]++
				if err == nil || !isIdx {
					e.ViolateK(oracle, "row-unreachable", "server database: row %s/%s (%s) is not reachable through its schema index: a probe with the same index values does not collide (%v)", tn, u, st[tn][u], err)
					return
				}
				found := false
				for _, x := range ie.Existing {
					if x == u {
						found = true
					}
				}
				if !found {
					e.ViolateK(oracle, "entry-leads-elsewhere", "server database: index values of %s/%s lead to %v", tn, u, ie.Existing)
					return
				}
			}
		}
	})
	if !ok {
		e.Logf("C05: database busy: %s", why)
	}
}

// ---- S7: a bare TableCache driven by direct Create/Update/Delete calls -----------------

// ModelFromRow builds a model struct (pointer) of the given type from a row.
func ModelFromRow(t *Table, ty reflect.Type, uuid string, r Row) any {
	pv := reflect.New(ty)
	v := pv.Elem()
	v.FieldByName("UUID").SetString(uuid)
	setAtom := func(f reflect.Value, a Atom) {
		switch f.Kind() {
		case reflect.Int:
			f.SetInt(a.I)
		case reflect.Float64:
			f.SetFloat(a.R)
		case reflect.Bool:
			f.SetBool(a.B)
		case reflect.String:
			f.SetString(a.S)
		}
	}
	for _, cn := range t.ColNames {
		f := fieldByCol(v, cn)
		val := r[cn]
		switch f.Kind() {
		case reflect.Map:
			m := reflect.MakeMap(f.Type())
			for _, p := range val.Map {
				k := reflect.New(f.Type().Key()).Elem()
				x := reflect.New(f.Type().Elem()).Elem()
				setAtom(k, p.K)
				setAtom(x, p.V)
				m.SetMapIndex(k, x)
			}
			f.Set(m)
		case reflect.Slice:
			s := reflect.MakeSlice(f.Type(), 0, len(val.Set))
			for _, a := range val.Set {
				x := reflect.New(f.Type().Elem()).Elem()
				setAtom(x, a)
				s = reflect.Append(s, x)
			}
			f.Set(s)
		case reflect.Pointer:
			if len(val.Set) == 1 {
				x := reflect.New(f.Type().Elem())
				setAtom(x.Elem(), val.Set[0])
				f.Set(x)
			}
		default:
			if len(val.Set) == 1 {
				setAtom(f, val.Set[0])
			}
		}
	}
	return pv.Interface()
}

// bareCache mirrors the database through direct RowCache calls, applied in a
// seeded random order inside each batch (one batch = one committed transaction).
type bareCache struct {
	tc  *cache.TableCache
	rng interface{ Intn(int) int }
}

func newBareCache(e *Env, rng interface{ Intn(int) int }) *bareCache {
	cm := e.CM
	cm.SetIndexes(clientIndexes(e.Sch))
	dbm, errs := model.NewDatabaseModel(e.LibSch, cm)
	if len(errs) > 0 {
		e.Fatalf("bare cache model: %v", errs)
		return nil
	}
	tc, err := cache.NewTableCache(dbm, nil, nil)
	if err != nil {
		e.Fatalf("bare cache: %v", err)
		return nil
	}
	return &bareCache{tc: tc, rng: rng}
}

// apply brings the bare cache from before to after with direct calls and then
// compares every index with a scan.
func (b *bareCache) apply(e *Env, before, after DBState) {
	all := &MonReq{Tables: map[string]*MonTable{}}
	for _, tn := range e.Sch.TableNames {
		all.Tables[tn] = &MonTable{Columns: e.Sch.Tables[tn].ColNames, Insert: true, Delete: true, Modify: true}
	}
	ch := all.Expected(before, after)
	for i := len(ch) - 1; i > 0; i-- {
		j := b.rng.Intn(i + 1)
		ch[i], ch[j] = ch[j], ch[i]
	}
	ok, why := e.Sim.Try(func() {
		for _, c := range ch {
			rc := b.tc.Table(c.Table)
			t := e.Sch.Tables[c.Table]
			var err error
			switch c.Kind {
			case "insert":
				err = rc.Create(c.UUID, ModelFromRow(t, e.Types[c.Table], c.UUID, after[c.Table][c.UUID]), false)
			case "modify":
				_, err = rc.Update(c.UUID, ModelFromRow(t, e.Types[c.Table], c.UUID, after[c.Table][c.UUID]), false)
			case "delete":
				err = rc.Delete(c.UUID)
			}
			if err != nil {
				e.ViolateK("C05.direct-call", c.Kind, "direct %s of %s/%s on a bare cache that mirrors the database failed: %v", c.Kind, c.Table, c.UUID, err)
				return
			}
			e.Probes["c05_direct_calls"]++
		}
		// checked calls that must be refused: a new row (or an update of an existing
		// one) that duplicates the LAST schema index of another row and nothing else.
		// A refused call must leave no trace in any index (compared right below).
		for _, tn := range e.Sch.TableNames {
			t := e.Sch.Tables[tn]
			us := SortedKeys(after[tn])
			if len(t.Indexes) < 2 || len(us) == 0 || b.rng.Intn(3) != 0 {
				continue
			}
			victim := after[tn][us[b.rng.Intn(len(us))]]
			probe := Row{}
			for cn, v := range victim {
				probe[cn] = v
			}
			last := t.Indexes[len(t.Indexes)-1]
			for k, idx := range t.Indexes[:len(t.Indexes)-1] {
				for _, cn := range idx {
					if t.Columns[cn].Type.Key.Type == "string" {
						probe[cn] = SetOf(AStr(fmt.Sprintf("\x02refused-%d", k)))
					} else {
						probe[cn] = SetOf(AInt(-7000000 - int64(k)))
					}
				}
			}
			_ = last
			rc := b.tc.Table(tn)
			ghost := "00000000-dead-4bee-8000-0000000000aa"
			err := rc.Create(ghost, ModelFromRow(t, e.Types[tn], ghost, probe), true)
			e.Probes["c05_refused_direct_call"]++
			if err == nil {
				e.ViolateK("C05.direct-call", "checked-create-accepted", "a checked Create of a row that duplicates index %v of another row of %s was accepted", last, tn)
				return
			}
			if len(us) > 1 {
				other := us[b.rng.Intn(len(us))]
				if !reflect.DeepEqual(after[tn][other], victim) {
					p2 := Row{}
					for cn, v := range after[tn][other] {
						p2[cn] = v
					}
					for _, cn := range last {
						p2[cn] = victim[cn]
					}
					if _, err := rc.Update(other, ModelFromRow(t, e.Types[tn], other, p2), true); err == nil {
						e.ViolateK("C05.direct-call", "checked-update-accepted", "a checked Update that gives row %s the values of index %v of another row of %s was accepted", other, last, tn)
						return
					}
				}
			}
		}
		cidx := b.tc.DatabaseModel().Client()
		for _, tn := range e.Sch.TableNames {
			checkRowCacheIndexes(e, b.tc.Table(tn), e.Sch.Tables[tn], cidx.Indexes(tn), "bare cache (direct Create/Update/Delete)", e.Sch.Tables[tn].ColNames)
			if e.Stopped() {
				return
			}
		}
		// and it must hold exactly the database's rows
		got := DBState{}
		for _, tn := range e.Sch.TableNames {
			got[tn] = TableData{}
			for u, m := range b.tc.Table(tn).Rows() {
				r, _ := RowFromModel(e.Sch.Tables[tn], m)
				got[tn][u] = r
			}
		}
		if d := DiffStates(after, got, e.Sch.TableNames, nil); d != "" {
			e.ViolateK("C05.direct-call", "contents", "bare cache differs from the rows written into it (written vs read):\n%s", d)
		}
	})
	if !ok {
		e.Logf("bare cache busy: %s", why)
	}
}
