package harness

import (
	"context"
	"fmt"
	"testing"
	"testing/synctest"
	"time"

	"github.com/ovn-org/libovsdb/simrt"
)

func runBubble(t *testing.T, f func()) (panicked any) {
	defer func() { panicked = recover() }()
	synctest.Test(t, func(t *testing.T) { f() })
	return nil
}

func TestSmoke(t *testing.T) {
	for seed := uint64(1); seed <= 3; seed++ {
		var dig string
		var steps int
		p := runBubble(t, func() {
			sim := simrt.NewSim(simrt.Config{Seed: seed, YieldPermil: 200, PermuteMaps: true, Stick: 4}, simrt.NewSeededTape(seed))
			defer sim.Stop()
			e, err := NewEnv(sim, KitchenSink(0), "C01")
			if err != nil {
				t.Fatal(err)
			}
			e.StartServer("ep0:1", false, nil)
			ci := e.NewClient("c1", []string{"ep0:1"}, ClientOpts{})
			if err := e.ConnectClient(ci, 5*time.Second); err != nil {
				t.Fatalf("connect: %v", err)
			}
			mc := e.Go("c1.mon", func(c *Call) {
				ctx, cancel := context.WithTimeout(context.Background(), 5*time.Second)
				defer cancel()
				_, c.Err = ci.C.MonitorAll(ctx)
			})
			e.WaitCall(mc)
			if mc.Err != nil {
				t.Fatalf("monitor: %v", mc.Err)
			}
			w, err := e.NewRawPeer("w", "ep0:1")
			if err != nil {
				t.Fatal(err)
			}
			for i := 0; i < 5; i++ {
				op := map[string]any{"op": "insert", "table": "Root", "row": map[string]any{"name": fmt.Sprintf("r%d", i), "ia": i, "kind": "a"}}
				call := w.Call("transact", []any{"KS", op})
				e.RunUntil(func() bool { return call.Done })
				if call.ErrorStr != "" {
					t.Fatalf("transact: %s", call)
				}
			}
			e.Settle()
			rows := ci.C.Cache().Table("Root").Rows()
			if len(rows) != 5 {
				t.Errorf("cache has %d rows, want 5; harnessErr=%s log=%v", len(rows), e.HarnessErr, e.LogTail(20))
			}
			dig = e.Digest()
			steps = sim.Stats.Steps
		})
		t.Logf("seed %d: steps=%d digest=%s panic=%v", seed, steps, dig, p)
	}
}
