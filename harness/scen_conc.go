package harness

import (
	"encoding/json"
	"fmt"
	"sort"
	"strings"
	"time"

	"github.com/anishathalye/porcupine"
	"github.com/google/uuid"
	"github.com/ovn-org/libovsdb/database"
	"github.com/ovn-org/libovsdb/database/inmemory"
	"github.com/ovn-org/libovsdb/model"
	"github.com/ovn-org/libovsdb/ovsdb"
	"github.com/ovn-org/libovsdb/simrt"
)

// Scenario S2 "concurrent-txn": the built-in server, 2-5 writers (raw peers,
// one connection each) issuing transactions concurrently, 0-2 observers.
// Serves C17. Every transaction inserts a uniquely named marker row, so each
// commit and each notification can be attributed to one transaction.

func init() {
	cfgByProp["C17"] = cfgS2
	runByScenario["S2"] = runS2
}

type concTxn struct {
	idx    int
	writer int
	spec   TxnSpec
	ops    []Op
	marker string
	call   *RawCall
	res    []ActRes
	failed bool
	commit int // 1-based commit number, 0 if none
	kind   string
}

type s2 struct {
	e           *Env
	cfg         *RunCfg
	srv         *ServerInst
	db          string
	writers     []*RawPeer
	queue       [][]int // per writer: indexes into txns
	busy        []*concTxn
	txns        []*concTxn
	obs         []*observer
	counterRows []string
	uniqName    string
}

func cfgS2(prop string, seed uint64, tier string) *RunCfg {
	r := simrt.NewRand(seed ^ 0x5252)
	c := &RunCfg{Property: prop, Scenario: "S2", Seed: seed, Knobs: map[string]int{}}
	c.SchemaVariant = r.Intn(3)
	c.YieldPermil = []int{30, 150, 400, 1000}[r.Intn(4)]
	c.PermuteMaps = r.Intn(10) != 0
	c.Stick = []int{1, 1, 4, 16}[r.Intn(4)]
	nw := 2 + r.Intn(3)
	per := 3 + r.Intn(5)
	if tier == "thorough" {
		nw = 2 + r.Intn(4)
		per = 3 + r.Intn(8)
	}
	c.Knobs["writers"] = nw
	c.Slow = slowClasses(r, "handleRequest#0", "handleRequest#1", "server:")
	c.Knobs["observers"] = r.Intn(3)
	if prop == "C02" || prop == "C07" {
		c.Knobs["observers"] = 1 + r.Intn(3)
	}
	for w := 0; w < nw; w++ {
		for i := 0; i < per; i++ {
			kind := []string{"incr", "incr", "uniq", "gen", "gen", "refs", "select", "select", "bulk", "fail", "cas", "cas"}[r.Intn(12)]
			if prop == "C03" || prop == "C15" {
				// mostly generated transactions (full where clauses / named uuids), evaluated while others are in flight
				kind = []string{"gen", "gen", "gen", "gen", "incr", "uniq", "select", "bulk"}[r.Intn(8)]
			}
			c.Txns = append(c.Txns, TxnSpec{Actor: fmt.Sprintf("w%d", w), GenSeed: r.Uint64(), Profile: "valid-sw", Kind: kind, Arg: r.Intn(3)})
		}
	}
	return c
}

func runS2(e *Env, cfg *RunCfg) {
	s := &s2{e: e, cfg: cfg, db: e.Sch.Name}
	s.srv = e.StartServer(epMain, false, nil)
	if e.Stopped() {
		return
	}
	nw := cfg.Knob("writers", 2)
	// seed state: counter rows and a child to refer to
	setup, err := e.NewRawPeer("setup", epMain)
	if err != nil {
		e.Fatalf("dial: %v", err)
		return
	}
	var ops []any
	ops = append(ops, s.db)
	for k := 0; k < 3; k++ {
		u := fmt.Sprintf("00000000-0000-4000-9000-00000000000%d", k)
		s.counterRows = append(s.counterRows, u)
		ops = append(ops, Op{"op": "insert", "table": "Root", "uuid": u, "row": map[string]any{"name": fmt.Sprintf("counter%d", k), "ia": 9000 + k, "ib": "ctr", "kind": "a", "num": 0}})
	}
	call := setup.Call("transact", ops)
	if !e.RunUntil(func() bool { return call.Done }) || call.ErrorStr != "" {
		if !e.Stopped() {
			e.Fatalf("setup transaction failed: %s", call)
		}
		return
	}
	e.Settle()
	for k := 0; k < cfg.Knob("observers", 0); k++ {
		ms := MonSpec{Owner: fmt.Sprintf("o%d", k), Method: []string{"monitor_cond", "monitor", "monitor_cond_since"}[k%3], Tables: map[string]*MonTable{}}
		for _, tn := range e.Sch.TableNames {
			ms.Tables[tn] = &MonTable{Columns: e.Sch.Tables[tn].ColNames, Initial: true, Insert: true, Delete: true, Modify: true}
		}
		s1h := &s1{e: e, cfg: cfg, srv: s.srv, db: s.db}
		o := s1h.startObserver(ms)
		if o == nil {
			return
		}
		s.obs = append(s.obs, o)
	}
	for w := 0; w < nw; w++ {
		p, err := e.NewRawPeer(fmt.Sprintf("w%d", w), epMain)
		if err != nil {
			e.Fatalf("dial: %v", err)
			return
		}
		s.writers = append(s.writers, p)
	}
	s.queue = make([][]int, nw)
	s.busy = make([]*concTxn, nw)
	for i, t := range cfg.Txns {
		var w int
		fmt.Sscanf(t.Actor, "w%d", &w)
		if w >= nw {
			continue
		}
		ct := &concTxn{idx: i, writer: w, spec: t, kind: t.Kind}
		s.txns = append(s.txns, ct)
		s.queue[w] = append(s.queue[w], len(s.txns)-1)
	}
	commitBase := len(s.srv.DB.Commits)
	e.ExtraActs = func() []simrt.Action {
		var acts []simrt.Action
		for w := range s.writers {
			if s.busy[w] != nil && s.busy[w].call.Done {
				s.busy[w] = nil
			}
			if s.busy[w] == nil && len(s.queue[w]) > 0 {
				w := w
				acts = append(acts, simrt.Action{Key: fmt.Sprintf("op:w%d", w), Kind: "op", Weight: 20, Do: func() { s.issue(w) }})
			}
		}
		return acts
	}
	done := func() bool {
		for w := range s.writers {
			if len(s.queue[w]) > 0 || (s.busy[w] != nil && !s.busy[w].call.Done) {
				return false
			}
		}
		return true
	}
	if !e.RunUntil(done) {
		if !e.Stopped() {
			st := libStacks()
			key := calleeOf(st, "database/transaction.(*Transaction).Transact")
			kind := "dead-lock"
			if e.Livelock != "" {
				kind = "endless loop"
			}
			if key != "" && strings.Contains(key, "ProcessReferences") {
				e.Abort("server never answers (" + kind + " in " + key + "): C04's concern")
				return
			}
			e.ViolateK("C17.hang", kind, "concurrent transactions never complete (%s; blocked: %v)\n%s", kind, e.Sim.Blocked(), trimStr(st, 5000))
		}
		return
	}
	e.ExtraActs = nil
	if !e.Settle() {
		return
	}
	s.check(commitBase)
}

func (s *s2) issue(w int) {
	e := s.e
	ti := s.queue[w][0]
	s.queue[w] = s.queue[w][1:]
	ct := s.txns[ti]
	var st DBState
	if n := len(s.srv.DB.Commits); n > 0 && s.srv.DB.Commits[n-1].After != nil {
		st = s.srv.DB.Commits[n-1].After
	} else {
		st = DBState{}
	}
	r := simrt.NewRand(ct.spec.GenSeed)
	ct.marker = fmt.Sprintf("mk-%d-%d", w, ct.idx)
	mkUUID := fmt.Sprintf("%08x-0000-4000-a000-%012d", ct.idx+1, w)
	marker := Op{"op": "insert", "table": "Root", "uuid": mkUUID, "row": map[string]any{"name": ct.marker, "ia": 100000 + ct.idx, "ib": "mk", "kind": "a"}}
	var ops []Op
	switch ct.kind {
	case "incr":
		u := s.counterRows[ct.spec.Arg%len(s.counterRows)]
		ops = []Op{
			{"op": "select", "table": "Root", "where": []any{[]any{"_uuid", "==", []any{"uuid", u}}}, "columns": []string{"num"}},
			{"op": "mutate", "table": "Root", "where": []any{[]any{"_uuid", "==", []any{"uuid", u}}}, "mutations": []any{[]any{"num", "+=", 1}}},
			marker,
		}
	case "cas":
		// compare-and-set: add one to a counter only if it still holds the value
		// read when the transaction was built; the reply's count says whether it did
		u := s.counterRows[ct.spec.Arg%len(s.counterRows)]
		k := int64(0)
		if v := st["Root"][u]["num"]; len(v.Set) == 1 {
			k = v.Set[0].I
		}
		ops = []Op{
			{"op": "update", "table": "Root", "where": []any{[]any{"_uuid", "==", []any{"uuid", u}}, []any{"num", "==", k}}, "row": map[string]any{"num": k + 1}},
			marker,
		}
	case "uniq":
		// several writers compete for the same unique name
		name := fmt.Sprintf("uniq-%d", ct.spec.Arg)
		ops = []Op{{"op": "insert", "table": "Root", "uuid": fmt.Sprintf("%08x-1111-4000-a000-%012d", ct.idx+1, w), "row": map[string]any{"name": name, "ia": 200000 + ct.idx, "ib": "uq", "kind": "b"}}, marker}
		switch r.Intn(4) {
		case 0:
			// get-or-create: look the name up first, in the same transaction
			ops = append([]Op{{"op": "select", "table": "Root", "where": []any{[]any{"name", "==", name}}, "columns": []string{"_uuid", "name"}}}, ops...)
		case 1:
			// touch-then-create
			ops = append([]Op{{"op": "mutate", "table": "Root", "where": []any{[]any{"name", "==", name}}, "mutations": []any{[]any{"num", "+=", 1}}}}, ops...)
		}
	case "bulk":
		// one transaction changes every row of a table: a concurrent reader must see all of it or none
		ops = []Op{{"op": "mutate", "table": "Root", "where": []any{}, "mutations": []any{[]any{"ratio", "+=", 1.0}}}, marker}
	case "select":
		tn := "Root"
		if r.Intn(3) == 0 {
			tn = e.Sch.TableNames[r.Intn(len(e.Sch.TableNames))]
		}
		ops = []Op{{"op": "select", "table": tn, "where": []any{}, "columns": []string{"_uuid", e.Sch.Tables[tn].ColNames[0], map[bool]string{true: "ratio", false: e.Sch.Tables[tn].ColNames[0]}[tn == "Root"]}}}
		ct.marker = "" // read-only: leaves no trace
	case "fail":
		bad := []Op{
			{"op": "insert", "table": "NoSuchTable", "row": map[string]any{}},
			{"op": "mutate", "table": "Root", "where": []any{}, "mutations": []any{[]any{"no_such_column", "+=", 1}}},
			{"op": "update", "table": "Root", "where": []any{}, "row": map[string]any{"num": "not-an-int"}},
			{"op": "select", "table": "Root", "where": []any{[]any{"no_such_column", "==", 1}}},
		}[r.Intn(4)]
		ops = []Op{marker, bad}
	default:
		prof := ProfileByName("valid-sw")
		if ct.kind == "refs" {
			prof = ProfileByName("refs")
		}
		switch e.Property {
		case "C03":
			prof = ProfileByName([]string{"valid", "mixed", "samerow"}[r.Intn(3)])
			prof.FailPermil, prof.BadCommit = 0, 0
		case "C15":
			prof = ProfileByName("named")
			prof.DupName, prof.BadCommit = 0, 0
		}
		prof.ExplicitID = 1000
		prof.MaxOps = 3
		g := NewGen(e.Sch, ct.spec.GenSeed, st, prof, fmt.Sprintf("t%d", ct.idx))
		// the state may have moved on when the transaction is evaluated: C17's serial
		// re-execution wants operations that stay meaningful, the model-based
		// properties evaluate whatever was sent against the state at commit time
		g.UUIDWhereOnly = e.Property != "C03" && e.Property != "C15"
		g.Exclude = func(table, u string) bool {
			if table != "Root" {
				return false
			}
			n := st["Root"][u]["name"]
			return len(n.Set) == 1 && (strings.HasPrefix(n.Set[0].S, "mk-") || strings.HasPrefix(n.Set[0].S, "uniq-") || strings.HasPrefix(n.Set[0].S, "counter"))
		}
		gops, _ := g.Txn()
		ops = append(gops, marker)
	}
	ct.ops = NormalizeOps(ops)
	params := []any{s.db}
	for _, op := range ct.ops {
		params = append(params, op)
	}
	ct.call = s.writers[w].Call("transact", params)
	s.busy[w] = ct
	e.Logf("issue txn %d by w%d (%s): %s", ct.idx, w, ct.kind, trimStr(string(mustJSON(ct.ops)), 600))
}

// ---- oracle ------------------------------------------------------------------------

func markerOf(before, after DBState) string {
	for u, r := range after["Root"] {
		if _, had := before["Root"][u]; had {
			continue
		}
		if n := r["name"]; len(n.Set) == 1 && strings.HasPrefix(n.Set[0].S, "mk-") {
			return n.Set[0].S
		}
	}
	return ""
}

func (s *s2) check(commitBase int) {
	e := s.e
	commits := s.srv.DB.Commits[commitBase:]
	byMarker := map[string]*concTxn{}
	for _, ct := range s.txns {
		if ct.call == nil {
			continue
		}
		if ct.call.ErrorStr != "" {
			ct.failed = true
		} else {
			res, err := decodeResults(ct.call.Result)
			if err != nil {
				e.ViolateK("C17.reply", "", "undecodable reply for transaction %d: %v", ct.idx, err)
				return
			}
			ct.res = res
			for _, r := range res {
				if r.Err != "" {
					ct.failed = true
				}
			}
		}
		if ct.marker != "" {
			byMarker[ct.marker] = ct
		}
	}
	if e.Property != "C17" {
		s.checkOther(commits, byMarker)
		return
	}
	// attribute commits to transactions
	var order []*concTxn
	{
		// a transaction without net effect still goes through Commit: not a commit in the sense of the property
		var real []*CommitRec
		for _, c := range commits {
			if DiffStates(c.Before, c.After, e.Sch.TableNames, nil) != "" {
				real = append(real, c)
			} else {
				e.Probes["c17_empty_commit_ignored"]++
			}
		}
		commits = real
	}
	for k, c := range commits {
		m := markerOf(c.Before, c.After)
		ct := byMarker[m]
		if ct == nil {
			e.ViolateK("C17.commit-attribution", "", "commit %d cannot be attributed to one transaction (marker %q): a commit must contain exactly the effects of one transaction\nbefore->after diff:\n%s", k+1, m, DiffStates(c.Before, c.After, e.Sch.TableNames, nil))
			return
		}
		if ct.commit != 0 {
			e.ViolateK("C17.commit-twice", "", "transaction %d was committed twice", ct.idx)
			return
		}
		ct.commit = k + 1
		order = append(order, ct)
		if k > 0 && DiffStates(commits[k-1].After, c.Before, e.Sch.TableNames, nil) != "" {
			e.ViolateK("C17.interleaved-commit", "", "the database changed between commit %d and commit %d outside any commit (or two commits overlapped):\n%s", k, k+1, DiffStates(commits[k-1].After, c.Before, e.Sch.TableNames, nil))
			return
		}
	}
	e.Probes["c17_commits"] += len(commits)
	if s.srv.DB.Overlap > 0 {
		e.Probes["c17_overlapping_commits"] += s.srv.DB.Overlap
	}
	for _, ct := range s.txns {
		if ct.call != nil && !ct.failed && ct.marker != "" && ct.commit == 0 {
			e.ViolateK("C17.lost-commit", "", "transaction %d (%s) returned success but no commit carries its marker\nreply: %s", ct.idx, ct.kind, ct.call.Result)
			return
		}
		if ct.failed && ct.commit != 0 {
			e.ViolateK("C17.failed-but-committed", "", "transaction %d returned an error but was committed", ct.idx)
			return
		}
	}
	if len(commits) > 0 {
		e.Probes["checked_nonempty"]++
	}

	// (a) serial re-execution on a private database, in commit order
	models := map[string]model.ClientDBModel{e.Sch.Name: e.CM}
	priv := inmemory.NewDatabase(models)
	if err := priv.CreateDatabase(e.Sch.Name, e.LibSch); err != nil {
		e.Fatalf("private database: %v", err)
		return
	}
	exec := func(ct *concTxn, commit bool) ([]ActRes, error) {
		var lops []ovsdb.Operation
		if err := json.Unmarshal(mustJSON(ct.ops), &lops); err != nil {
			return nil, err
		}
		res, upd := priv.NewTransaction(e.Sch.Name).Transact(lops...)
		ok := true
		for _, r := range res {
			if r != nil && r.Error != "" {
				ok = false
			}
		}
		if ok && commit {
			if err := priv.Commit(e.Sch.Name, uuid.New(), upd); err != nil {
				return nil, err
			}
		}
		return decodeResults(mustJSON(res))
	}
	// bring the private database to the state before the first concurrent commit
	if len(commits) > 0 {
		if err := loadState(priv, e, commits[0].Before); err != nil {
			e.Fatalf("cannot load initial state into the private database: %v", err)
			return
		}
	} else if commitBase > 0 {
		if err := loadState(priv, e, s.srv.DB.Commits[commitBase-1].After); err != nil {
			e.Fatalf("cannot load initial state: %v", err)
			return
		}
	}
	// non-committing transactions: replies they would get at each prefix
	nonCommit := []*concTxn{}
	for _, ct := range s.txns {
		if ct.call != nil && ct.commit == 0 {
			nonCommit = append(nonCommit, ct)
		}
	}
	replyAt := map[int]map[int]string{} // txn idx -> prefix k -> canonical reply
	recordNC := func(k int) {
		for _, ct := range nonCommit {
			res, err := exec(ct, false)
			if err != nil {
				continue
			}
			if replyAt[ct.idx] == nil {
				replyAt[ct.idx] = map[int]string{}
			}
			replyAt[ct.idx][k] = canonResults(e.Sch, ct.ops, res)
		}
	}
	var bad string
	ok, why := e.Sim.Try(func() {
		recordNC(0)
		for k, ct := range order {
			res, err := exec(ct, true)
			if err != nil {
				bad = fmt.Sprintf("serial re-execution of transaction %d failed: %v", ct.idx, err)
				return
			}
			if a, b := canonResults(e.Sch, ct.ops, ct.res), canonResults(e.Sch, ct.ops, res); a != b {
				bad = fmt.Sprintf("transaction %d (%s, commit %d) received results that differ from executing the committed transactions one after another in commit order\nreceived: %s\nserial:   %s\nops: %s", ct.idx, ct.kind, k+1, a, b, shortOps(ct.ops))
				return
			}
			recordNC(k + 1)
		}
		final := Snapshot(priv, e.Sch.Name, e.Sch)
		actual := Snapshot(s.srv.DB.Inner, e.Sch.Name, e.Sch)
		if d := DiffStates(final, actual, e.Sch.TableNames, nil); d != "" {
			bad = "final database contents differ from the serial execution in commit order (serial vs actual):\n" + d
		}
	})
	if !ok {
		e.Fatalf("serial re-execution blocked: %s", why)
		return
	}
	if bad != "" {
		e.ViolateK("C17.not-serial", "", "%s", bad)
		return
	}
	e.Probes["c17_serial_reexecution_ok"]++

	// (b) every observer is notified in commit order, once per commit
	for _, o := range s.obs {
		var seen []string
		rep := o.replica
		for _, n := range o.peer.Notes[o.seen:] {
			if n.Method == "echo" {
				continue
			}
			d, err := DecodeTableUpdates(e.Sch, n.Params[len(n.Params)-1], o.spec.Method != "monitor")
			if err != nil {
				e.ViolateK("C17.observer-decode", "", "observer %s: %v", o.spec.Owner, err)
				return
			}
			before := rep.Clone()
			if err := o.req.Apply(e.Sch, rep, d); err != nil {
				e.ViolateK("C17.observer-apply", "", "observer %s cannot apply notification: %v", o.spec.Owner, err)
				return
			}
			seen = append(seen, markerOf(before, rep))
		}
		var want []string
		for _, ct := range order {
			want = append(want, ct.marker)
		}
		if strings.Join(seen, ",") != strings.Join(want, ",") {
			e.ViolateK("C17.notification-order", "", "observer %s was notified in order %v but the commit order is %v", o.spec.Owner, seen, want)
			return
		}
		e.Probes["c17_observer_order_checked"]++
	}

	// (d) the two named instances
	finalSt, _, okf := e.SnapshotDB(s.srv)
	if okf {
		incr := map[string]int{}
		uniqOK := map[string]int{}
		uniqTried := map[string]int{}
		for _, ct := range s.txns {
			if ct.call == nil {
				continue
			}
			switch ct.kind {
			case "incr":
				if !ct.failed {
					incr[s.counterRows[ct.spec.Arg%len(s.counterRows)]]++
				}
			case "cas":
				if !ct.failed && len(ct.res) > 0 && ct.res[0].Count == 1 {
					incr[s.counterRows[ct.spec.Arg%len(s.counterRows)]]++
				} else if !ct.failed {
					incr[s.counterRows[ct.spec.Arg%len(s.counterRows)]] += 0
				}
			case "uniq":
				n := fmt.Sprintf("uniq-%d", ct.spec.Arg)
				uniqTried[n]++
				if !ct.failed {
					uniqOK[n]++
				}
			}
		}
		for u, n := range incr {
			got := finalSt["Root"][u]["num"]
			if len(got.Set) != 1 || got.Set[0].I != int64(n) {
				e.ViolateK("C17.lost-increment", "", "counter %s was incremented by %d successful transactions but holds %s", u, n, got)
				return
			}
			e.Probes["c17_counter_checked"]++
		}
		hasNameIndex := false
		for _, idx := range e.Sch.Tables["Root"].Indexes {
			if len(idx) == 1 && idx[0] == "name" {
				hasNameIndex = true
			}
		}
		for n, tried := range uniqTried {
			if !hasNameIndex {
				break
			}
			if tried >= 2 {
				e.Probes["c17_competing_unique_inserts"]++
			}
			if uniqOK[n] != 1 {
				e.ViolateK("C17.unique-insert", "", "%d concurrent inserts competed for unique name %q and %d succeeded (want exactly 1)", tried, n, uniqOK[n])
				return
			}
		}
	}

	// (c) linearizability of all operations, including those that leave no trace
	type in struct{ idx int }
	byIdx := map[int]*concTxn{}
	for _, ct := range s.txns {
		byIdx[ct.idx] = ct
	}
	pm := porcupine.Model{
		Init: func() interface{} { return 0 },
		Step: func(state, input, output interface{}) (bool, interface{}) {
			simrt.Heartbeat.Add(1) // analysis is progress too (watchdog food)
			k := state.(int)
			ct := byIdx[input.(in).idx]
			if ct.commit != 0 {
				return ct.commit == k+1, k + 1
			}
			want, ok := replyAt[ct.idx][k]
			if !ok {
				return false, k
			}
			return want == output.(string), k
		},
		Equal: func(a, b interface{}) bool { return a.(int) == b.(int) },
	}
	var pops []porcupine.Operation
	for _, ct := range s.txns {
		if ct.call == nil || !ct.call.Done {
			continue
		}
		pops = append(pops, porcupine.Operation{ClientId: ct.writer, Input: in{ct.idx}, Call: int64(ct.call.SentSeq), Output: canonResults(e.Sch, ct.ops, ct.res), Return: int64(ct.call.DoneSeq)})
	}
	if len(pops) > 60 {
		pops = pops[:60]
	}
	res := porcupine.CheckOperationsTimeout(pm, pops, 20*time.Second)
	switch res {
	case porcupine.Illegal:
		e.Probes["porcupine_illegal"]++
		var desc []string
		for _, ct := range s.txns {
			if ct.call != nil {
				desc = append(desc, fmt.Sprintf("txn %d w%d %s call=%d ret=%d commit=%d failed=%v", ct.idx, ct.writer, ct.kind, ct.call.SentSeq, ct.call.DoneSeq, ct.commit, ct.failed))
			}
		}
		e.ViolateK("C17.not-linearizable", "", "the recorded history (invoke/return stamps, replies, commit order) is not linearizable against the sequential database\n%s", strings.Join(desc, "\n"))
	case porcupine.Unknown:
		e.Probes["porcupine_unknown"]++
	default:
		e.Probes["porcupine_ok"]++
	}
}

// canonResults renders results order-independently (select rows as a set).
// checkOther evaluates, on the concurrent history, the part of C02 / C04 / C06 /
// C07 that says "after every committed transaction" / "in commit order": the
// single-writer scenario S1 never has two transactions in flight, and a server
// that stops evaluating and committing a transaction in one critical section
// breaks each of these statements, not only serializability (C17).
func (s *s2) checkOther(commits []*CommitRec, byMarker map[string]*concTxn) {
	e := s.e
	sch := e.Sch
	if len(commits) > 0 {
		e.Probes["checked_nonempty"]++
	}
	e.Probes["concurrent_history_checked"]++
	markerIn := func(st DBState, m string) bool {
		for _, r := range st["Root"] {
			if n := r["name"]; len(n.Set) == 1 && n.Set[0].S == m {
				return true
			}
		}
		return false
	}
	switch e.Property {
	case "C03", "C15":
		h := &s1{e: e, cfg: s.cfg, srv: s.srv, db: s.db}
		for k, c := range commits {
			ct := byMarker[markerOf(c.Before, c.After)]
			if ct == nil || ct.failed || ct.call == nil || len(ct.res) == 0 {
				continue // not attributable: C17's concern
			}
			if len(integrityProblems(sch, c.Before)) > 0 || len(dupIndexTuples(sch, c.Before)) > 0 {
				e.Abort("database state already inconsistent (known finding earlier in this run)")
				return
			}
			out := &TxnOutcome{Ops: ct.ops, Call: ct.call, Res: ct.res, Before: c.Before, After: c.After, OpFailAt: -1, Commits: 1}
			e.Probes["concurrent_commit_vs_model"]++
			if e.Property == "C03" {
				h.checkC03(1000+k, out)
			} else {
				h.checkC15(1000+k, out)
			}
			if e.Stopped() {
				return
			}
		}
	case "C06":
		for k, c := range commits {
			if len(dupIndexTuples(sch, c.Before)) > 0 {
				e.Abort("duplicates stored earlier in this run")
				return
			}
			if d := dupIndexTuples(sch, c.After); len(d) > 0 {
				key := "concurrent"
				if dk := (&s1{e: e}).dupKey(&TxnOutcome{Before: c.Before, After: c.After}); dk != "plain" {
					key = dk
				}
				e.ViolateK("C06.duplicate-stored", key, "with %d writers in flight, after commit %d: %s\ncommit diff:\n%s", len(s.writers), k+1, strings.Join(d, "; "), DiffStates(c.Before, c.After, sch.TableNames, nil))
				return
			}
		}
	case "C04":
		for k, c := range commits {
			if len(integrityProblems(sch, c.Before)) > 0 {
				e.Abort("database state already inconsistent (known finding earlier in this run)")
				return
			}
			if ps := integrityProblems(sch, c.After); len(ps) > 0 {
				tag := "concurrent:"
				if ct := byMarker[markerOf(c.Before, c.After)]; ct != nil {
					if ref := RefTransact(sch, c.Before, ct.ops, nil); ref.GCd > 0 {
						tag = "gc-chain:"
					}
				}
				e.ViolateK("C04.integrity", tag+integrityKey(sch, ps[0]), "with %d writers in flight, after commit %d: %s\ncommit diff:\n%s", len(s.writers), k+1, strings.Join(ps, "; "), DiffStates(c.Before, c.After, sch.TableNames, nil))
				return
			}
		}
	case "C02":
		final, _, ok := e.SnapshotDB(s.srv)
		for _, ct := range s.txns {
			if ct.call == nil || !ct.failed || ct.marker == "" {
				continue
			}
			e.Probes["c02_failed_txn_checked"]++
			for k, c := range commits {
				if markerIn(c.After, ct.marker) && !markerIn(c.Before, ct.marker) {
					e.ViolateK("C02.committed", "concurrent", "transaction %d (%s) was answered with an error but commit %d stores its rows\nreply: %s %s", ct.idx, ct.kind, k+1, ct.call.Result, ct.call.ErrorStr)
					return
				}
			}
			if ok && markerIn(final, ct.marker) {
				e.ViolateK("C02.rows-changed", "concurrent", "transaction %d (%s) was answered with an error but the database holds its rows\nreply: %s %s", ct.idx, ct.kind, ct.call.Result, ct.call.ErrorStr)
				return
			}
			for _, o := range s.obs {
				for _, n := range o.peer.Notes[o.seen:] {
					if n.Method != "echo" && strings.Contains(string(n.Params[len(n.Params)-1]), `"`+ct.marker+`"`) {
						e.ViolateK("C02.notified", "concurrent", "transaction %d (%s) was answered with an error but monitor %s was told about its rows: %s\nreply: %s %s", ct.idx, ct.kind, o.spec.Owner, trimStr(joinRaw(n.Params), 800), ct.call.Result, ct.call.ErrorStr)
						return
					}
				}
			}
		}
	case "C07":
		var real []*CommitRec
		for _, c := range commits {
			if DiffStates(c.Before, c.After, sch.TableNames, nil) != "" {
				real = append(real, c)
			}
		}
		for _, c := range real {
			if len(integrityProblems(sch, c.After)) > 0 {
				e.Abort("database violates referential integrity: C04's concern")
				return
			}
		}
		for _, o := range s.obs {
			rep := o.replica
			k := 0
			for _, n := range o.peer.Notes[o.seen:] {
				if n.Method == "echo" {
					continue
				}
				d, err := DecodeTableUpdates(sch, n.Params[len(n.Params)-1], o.spec.Method != "monitor")
				if err != nil {
					e.ViolateK("C07.decode", "concurrent", "observer %s: %v", o.spec.Owner, err)
					return
				}
				// skip commits with no selected change for this monitor
				for k < len(real) && len(o.req.Expected(real[k].Before, real[k].After)) == 0 {
					k++
				}
				if k >= len(real) {
					e.ViolateK("C07.count", "concurrent", "observer %s (%s) received more notifications than there are commits with a selected change (%d): %s", o.spec.Owner, o.spec.Method, len(real), trimStr(joinRaw(n.Params), 800))
					return
				}
				if err := o.req.Apply(sch, rep, d); err != nil {
					e.ViolateK("C07.order", "concurrent", "with %d writers in flight, observer %s (%s) cannot apply notification %d in arrival order: %v\n%s", len(s.writers), o.spec.Owner, o.spec.Method, k+1, err, trimStr(joinRaw(n.Params), 800))
					return
				}
				if diff := DiffStates(o.req.Project(real[k].After), rep, sch.TableNames, nil); diff != "" {
					e.ViolateK("C07.order", "concurrent", "with %d writers in flight, observer %s (%s): notifications applied in arrival order do not reproduce the database after commit %d (database vs replica):\n%s", len(s.writers), o.spec.Owner, o.spec.Method, k+1, diff)
					return
				}
				k++
			}
			for k < len(real) && len(o.req.Expected(real[k].Before, real[k].After)) == 0 {
				k++
			}
			if k != len(real) {
				e.ViolateK("C07.count", "concurrent", "observer %s (%s) was notified of %d of %d commits with a selected change", o.spec.Owner, o.spec.Method, k, len(real))
				return
			}
			e.Probes["c07_concurrent_observer_checked"]++
		}
	}
}

func canonResults(sch *Schema, ops []Op, res []ActRes) string {
	var parts []string
	for i, r := range res {
		switch {
		case r.Null:
			parts = append(parts, "null")
		case r.Err != "":
			parts = append(parts, "error:"+errClass(r.Err))
		case r.HasRows:
			var rows []string
			var t *Table
			if i < len(ops) {
				t = sch.Tables[fmt.Sprint(ops[i]["table"])]
			}
			for _, rj := range r.Rows {
				if t != nil {
					if row, u, err := RowFromWire(t, rj); err == nil {
						rows = append(rows, u+row.String())
						continue
					}
				}
				rows = append(rows, string(mustJSON(rj)))
			}
			sort.Strings(rows)
			parts = append(parts, "rows["+strings.Join(rows, ";")+"]")
		case i < len(ops) && ops[i]["op"] == "insert":
			parts = append(parts, "uuid:"+r.UUID)
		default:
			parts = append(parts, fmt.Sprintf("count:%d", r.Count))
		}
	}
	return strings.Join(parts, " ")
}

// loadState fills a fresh database with exactly the rows of st, in a single
// transaction of inserts (so that references between the rows resolve).
func loadState(d database.Database, e *Env, st DBState) error {
	simrt.Heartbeat.Add(1) // analysis is progress too (watchdog food)
	var ops []Op
	for _, tn := range e.Sch.TableNames {
		for _, u := range SortedKeys(st[tn]) {
			ops = append(ops, Op{"op": "insert", "table": tn, "uuid": u, "row": RowToWire(st[tn][u])})
		}
	}
	if len(ops) == 0 {
		return nil
	}
	var lops []ovsdb.Operation
	if err := json.Unmarshal(mustJSON(ops), &lops); err != nil {
		return err
	}
	res, upd := d.NewTransaction(e.Sch.Name).Transact(lops...)
	for _, r := range res {
		if r != nil && r.Error != "" {
			return fmt.Errorf("%s: %s", r.Error, r.Details)
		}
	}
	if err := d.Commit(e.Sch.Name, uuid.New(), upd); err != nil {
		return err
	}
	got := Snapshot(d, e.Sch.Name, e.Sch)
	if diff := DiffStates(st, got, e.Sch.TableNames, nil); diff != "" {
		return fmt.Errorf("loaded state differs: %s", diff)
	}
	return nil
}
