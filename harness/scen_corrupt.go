package harness

import (
	"encoding/json"
	"fmt"
	"sort"
	"strings"

	"github.com/ovn-org/libovsdb/simrt"
)

// Scenario S6 "wire-corruption": a raw peer sends transact requests obtained
// by structurally corrupting valid ones (a buggy or hostile peer is a
// network-level fault); afterwards an echo and a valid transaction must still
// be served, on the same connection and on a fresh one. The failure mode - a
// panic in a connection goroutine taking the whole process down - only exists
// in the running system. Serves C19 (server side).

func init() {
	cfgByProp["C19"] = cfgS6
	runByScenario["S6"] = runS6
}

func cfgS6(prop string, seed uint64, tier string) *RunCfg {
	r := simrt.NewRand(seed ^ 0x5656)
	c := &RunCfg{Property: prop, Scenario: "S6", Seed: seed, Knobs: map[string]int{}}
	c.SchemaVariant = r.Intn(3)
	c.YieldPermil = []int{0, 30}[r.Intn(2)]
	c.PermuteMaps = true
	c.Stick = 4
	n := 6 + r.Intn(8)
	if tier == "thorough" {
		n = 10 + r.Intn(20)
	}
	for i := 0; i < n; i++ {
		c.Txns = append(c.Txns, TxnSpec{Actor: "x", GenSeed: r.Uint64(), Profile: []string{"valid-sw", "mixed", "named", "refs"}[r.Intn(4)], Kind: "corrupt"})
	}
	if r.Intn(3) == 0 {
		// client-side half: a corrupting stub server against a real client
		c.Scenario = "S6C"
		c.YieldPermil = []int{0, 30, 150}[r.Intn(3)]
	}
	return c
}

// ---- corruption grammar -----------------------------------------------------------

type jpath struct {
	parent any // map[string]any or []any
	key    string
	idx    int
}

// collect returns every position (container + key/index) in a JSON value.
func collect(v any, out *[]jpath) {
	switch x := v.(type) {
	case map[string]any:
		ks := make([]string, 0, len(x))
		for k := range x {
			ks = append(ks, k)
		}
		sort.Strings(ks)
		for _, k := range ks {
			*out = append(*out, jpath{parent: x, key: k})
			collect(x[k], out)
		}
	case []any:
		for i := range x {
			*out = append(*out, jpath{parent: x, idx: i})
			collect(x[i], out)
		}
	}
}

func (p jpath) get() any {
	if m, ok := p.parent.(map[string]any); ok {
		return m[p.key]
	}
	return p.parent.([]any)[p.idx]
}

func (p jpath) set(v any) {
	if m, ok := p.parent.(map[string]any); ok {
		m[p.key] = v
		return
	}
	p.parent.([]any)[p.idx] = v
}

var junk = []any{nil, true, 0, -1, 1.5, 1e308, 9223372036854775807.0, "", "x", []any{}, []any{"uuid"}, []any{"set"}, []any{"set", 1}, []any{"map"}, []any{"map", 1}, []any{"map", []any{1}}, []any{"map", []any{[]any{"k"}}}, []any{"named-uuid"}, []any{"uuid", 1}, []any{"set", []any{[]any{}}}, map[string]any{}, []any{[]any{}}, []any{1, 2, 3}, []any{"c", "==", nil}, []any{"c", 5, 1}, []any{"c"},
	// valid words in the wrong place: implicit columns, functions and mutators that do not fit the column type
	"_version", "_uuid", "<", ">=", "includes", "excludes", "!=", "+=", "delete", "insert", "%=",
	[]any{"named-uuid", 1}, []any{"uuid", nil}, []any{"uuid", []any{"x"}}, []any{"named-uuid", map[string]any{}}, []any{"uuid", "not-a-uuid"},
	[]any{"_version", "==", []any{"uuid", "00000000-0000-4000-8000-000000000001"}}, []any{"_uuid", "<", 1},
	// well-formed values of the wrong shape for where they land: empty set and map, fractions
	[]any{"set", []any{}}, []any{"map", []any{}}, 0.5, -0.5, 1e-9,
	// whole conditions and mutations over real columns: ordering functions against an empty set or a
	// set, arithmetic with fractional or zero operands on integer columns
	[]any{"oint", "<", []any{"set", []any{}}}, []any{"ostr", ">=", []any{"set", []any{}}}, []any{"num", "<=", []any{"set", []any{}}},
	[]any{"ratio", ">", []any{"set", []any{1.5, 2.5}}}, []any{"oint", ">", []any{"set", []any{1, 2}}}, []any{"obool", "<", true},
	[]any{"num", "%=", 0.5}, []any{"num", "/=", 0.25}, []any{"nums", "/=", 0.5}, []any{"nums", "%=", 0}, []any{"ratio", "/=", 0}, []any{"oint", "/=", 0.5}}

// corrupt applies 1-2 structural corruptions to a deep copy of ops and says what it did.
func corrupt(r *simrt.Rand, ops []Op) ([]any, string) {
	var cp []any
	_ = json.Unmarshal(mustJSON(ops), &cp)
	var what []string
	for n := 0; n < 1+r.Intn(2); n++ {
		if len(cp) == 0 {
			break
		}
		switch k := r.Intn(14); {
		case k == 0:
			// degenerate arithmetic on some integer column
			cp = append(cp, map[string]any{"op": "mutate", "table": "Root", "where": []any{}, "mutations": []any{[]any{[]string{"num", "num", "nums", "oint"}[r.Intn(4)], []string{"/=", "%="}[r.Intn(2)], []any{0, 0, 0.5, -0.25, 1e-9}[r.Intn(5)]}}})
			what = append(what, "divide-by-zero")
		case k == 1:
			// operations that need optional members, without them
			cp = append(cp, map[string]any{"op": []string{"commit", "comment", "assert", "abort", "bogus", ""}[r.Intn(6)]})
			what = append(what, "op-without-members")
		case k == 2:
			cp = []any{}
			what = append(what, "no-operations")
		case k == 4 || k == 5:
			// a well-formed but ill-typed condition or mutation added to an operation on Root
			conds := []any{
				[]any{"oint", "<", []any{"set", []any{}}}, []any{"ostr", ">=", []any{"set", []any{}}}, []any{"num", "<=", []any{"set", []any{}}},
				[]any{"ratio", ">", []any{"set", []any{1.5, 2.5}}}, []any{"oint", ">", []any{"set", []any{1, 2}}}, []any{"obool", "<", true},
				[]any{"_version", "==", []any{"uuid", "00000000-0000-4000-8000-000000000001"}}, []any{"tags", "<", "x"}, []any{"props", ">", []any{"map", []any{}}},
				[]any{"oint", "includes", []any{"set", []any{}}}, []any{"name", "<", "n1"}, []any{"wpeer", "<", []any{"set", []any{}}},
			}
			muts := []any{
				[]any{"num", "%=", 0.5}, []any{"num", "/=", 0.25}, []any{"nums", "/=", 0.5}, []any{"nums", "%=", 0}, []any{"ratio", "/=", 0},
				[]any{"oint", "/=", 0.5}, []any{"oint", "+=", []any{"set", []any{}}}, []any{"tags", "+=", 1}, []any{"props", "delete", 1}, []any{"name", "insert", "x"},
			}
			op := map[string]any{"op": []string{"select", "update", "delete", "mutate"}[r.Intn(4)], "table": "Root", "where": []any{conds[r.Intn(len(conds))]}, "row": map[string]any{"rank": 1}, "mutations": []any{[]any{"rank", "+=", 1}}}
			if k == 5 {
				op = map[string]any{"op": "mutate", "table": "Root", "where": []any{}, "mutations": []any{muts[r.Intn(len(muts))]}}
			}
			cp = append(cp, op)
			what = append(what, "ill-typed-"+[]string{"condition", "mutation"}[k-4])
		case k == 3:
			// an operation that is not an object
			var j any
			_ = json.Unmarshal(mustJSON(junk[r.Intn(len(junk))]), &j)
			cp[r.Intn(len(cp))] = j
			what = append(what, "operation-not-object")
		default:
			var ps []jpath
			collect(cp, &ps)
			if len(ps) == 0 {
				continue
			}
			p := ps[r.Intn(len(ps))]
			if m, ok := p.parent.(map[string]any); ok && r.Intn(3) == 0 {
				delete(m, p.key)
				what = append(what, "drop:"+p.key)
				continue
			}
			var j any
			_ = json.Unmarshal(mustJSON(junk[r.Intn(len(junk))]), &j) // private copy
			p.set(j)
			lbl := p.key
			if lbl == "" {
				lbl = fmt.Sprintf("[%d]", p.idx)
			}
			what = append(what, fmt.Sprintf("set:%s=%s", lbl, mustJSON(j)))
		}
	}
	return cp, strings.Join(what, ",")
}

func runS6(e *Env, cfg *RunCfg) {
	srv := e.StartServer(epMain, false, nil)
	if e.Stopped() {
		return
	}
	db := e.Sch.Name
	x, err := e.NewRawPeer("x", epMain)
	if err != nil {
		e.Fatalf("dial: %v", err)
		return
	}
	good, err := e.NewRawPeer("good", epMain)
	if err != nil {
		e.Fatalf("dial: %v", err)
		return
	}
	validN := 0
	valid := func(p *RawPeer, when string) bool {
		validN++
		op := Op{"op": "insert", "table": "Root", "row": map[string]any{"name": fmt.Sprintf("ok-%d", validN), "ia": 500000 + 1000*validN, "ib": fmt.Sprintf("ok%d", validN), "kind": "a", "oint": validN}}
		call := p.Call("transact", []any{db, op})
		if !e.RunUntil(func() bool { return call.Done }) {
			if !e.Stopped() {
				e.ViolateK("C19.stops-serving", "transact", "%s: a valid transaction on connection %s is never answered\n%s", when, p.Name, trimStr(libStacks(), 3000))
			}
			return false
		}
		if call.ErrorStr != "" {
			e.ViolateK("C19.stops-serving", "transact-error", "%s: a valid transaction on connection %s is answered with %s", when, p.Name, call)
			return false
		}
		res, err := decodeResults(call.Result)
		if err != nil || len(res) != 1 || res[0].Err != "" {
			e.ViolateK("C19.stops-serving", "transact-result", "%s: a valid transaction on connection %s got %s", when, p.Name, call.Result)
			return false
		}
		return true
	}
	if !valid(x, "before any corruption") {
		return
	}
	for i, txn := range cfg.Txns {
		before := DBState{}
		if n := len(srv.DB.Commits); n > 0 && srv.DB.Commits[n-1].After != nil {
			before = srv.DB.Commits[n-1].After
		}
		g := NewGen(e.Sch, txn.GenSeed, before, ProfileByName(txn.Profile), fmt.Sprintf("t%d", i))
		ops, _ := g.Txn()
		r := simrt.NewRand(txn.GenSeed ^ 0xc0)
		bad, what := corrupt(r, NormalizeOps(ops))
		params := append([]any{db}, bad...)
		e.Logf("corrupted request %d (%s): %s", i, what, trimStr(string(mustJSON(params)), 1500))
		e.ShapeAdd(what)
		if x.Closed {
			// the server dropped the connection on an earlier request: use a new one
			x, err = e.NewRawPeer(fmt.Sprintf("x%d", i), epMain)
			if err != nil {
				e.Fatalf("dial: %v", err)
				return
			}
		}
		call := x.Call("transact", params)
		if !e.RunUntil(func() bool { return call.Done }) {
			if !e.Stopped() {
				st := libStacks()
				if key := calleeOf(st, "database/transaction.(*Transaction).Transact"); key != "" && strings.Contains(key, "ProcessReferences") {
					e.Abort("server never answers (" + key + "): C04's concern")
					return
				}
				key := what
				for _, b := range bad {
					if op, ok := b.(map[string]any); ok && op["op"] == "wait" {
						if _, isNum := op["timeout"].(float64); !isNum {
							key = "wait-without-timeout" // absent, null or not a number: waits for ever by definition
						}
					}
				}
				e.ViolateK("C19.no-answer", key, "corrupted request %d (%s) is never answered\nrequest: %s\n%s", i, what, trimStr(string(mustJSON(params)), 1500), trimStr(st, 3000))
			}
			return
		}
		e.Probes["corrupted_requests"]++
		e.Probes["checked_nonempty"]++
		switch {
		case call.ErrorStr == "connection closed":
			e.Probes["connection_dropped_by_server"]++
			e.ViolateK("C19.connection-dropped", kindOf(what), "the server dropped the connection instead of answering corrupted request %d (%s)\nrequest: %s", i, what, trimStr(string(mustJSON(params)), 1500))
			if e.Stopped() {
				return
			}
		case call.ErrorStr != "":
			e.Probes["answered_with_rpc_error"]++
		default:
			e.Probes["answered_with_results"]++
		}
		e.Logf("reply %d: %s %s", i, trimStr(string(call.Result), 400), call.ErrorStr)
		// keeps serving: echo + valid transaction on the same connection (if it survived) and on another
		if !x.Closed {
			echo := x.Call("echo", []any{"ping", i})
			if !e.RunUntil(func() bool { return echo.Done }) {
				if !e.Stopped() {
					e.ViolateK("C19.stops-serving", "echo", "after corrupted request %d (%s) an echo on the same connection is never answered", i, what)
				}
				return
			}
			if echo.ErrorStr != "" {
				e.ViolateK("C19.stops-serving", "echo-error", "after corrupted request %d (%s) echo answered %s", i, what, echo)
				return
			}
			if !valid(x, fmt.Sprintf("after corrupted request %d (%s), same connection", i, what)) {
				return
			}
		}
		if !valid(good, fmt.Sprintf("after corrupted request %d (%s), other connection", i, what)) {
			return
		}
	}
}

func kindOf(what string) string {
	if i := strings.IndexAny(what, "=,"); i > 0 {
		return what[:i]
	}
	return what
}
