module verif/harness

go 1.26.8

require (
	github.com/anishathalye/porcupine v1.3.0
	github.com/ovn-org/libovsdb v0.0.0
)

replace github.com/ovn-org/libovsdb => ../repo
