package harness

import (
	"fmt"
	"sort"
	"strings"

	"github.com/google/uuid"
	"github.com/ovn-org/libovsdb/database"
	"github.com/ovn-org/libovsdb/model"
	"github.com/ovn-org/libovsdb/ovsdb"
	"github.com/ovn-org/libovsdb/simrt"
)

// DBWrap wraps the database.Database handed to the server (an existing seam):
// it snapshots the real database before and after every Commit, numbers the
// commits (ground-truth commit order) and can inject a Commit error.
type DBWrap struct {
	Inner   database.Database
	Schemas map[string]*Schema
	Commits []*CommitRec
	// FailCommit, if set, is consulted before each commit.
	FailCommit func(n int) error
	OnCommit   func(rec *CommitRec)
	// Snap controls whether before/after snapshots are taken in Commit.
	Snap bool
	// InCommit counts commits in progress (overlap probe).
	inCommit int
	Overlap  int
}

type CommitRec struct {
	N      int
	DB     string
	Before DBState
	After  DBState
	Refs   map[string]string // table/uuid -> canonical references, after
	By     string            // logical goroutine id
	Err    error
	ID     string
}

func NewDBWrap(inner database.Database) *DBWrap {
	return &DBWrap{Inner: inner, Schemas: map[string]*Schema{}, Snap: true}
}

func (w *DBWrap) CreateDatabase(name string, s ovsdb.DatabaseSchema) error {
	return w.Inner.CreateDatabase(name, s)
}
func (w *DBWrap) Exists(name string) bool { return w.Inner.Exists(name) }
func (w *DBWrap) NewTransaction(name string) database.Transaction {
	return w.Inner.NewTransaction(name)
}
func (w *DBWrap) CheckIndexes(db, table string, m model.Model) error {
	return w.Inner.CheckIndexes(db, table, m)
}
func (w *DBWrap) List(db, table string, conds ...ovsdb.Condition) (map[string]model.Model, error) {
	return w.Inner.List(db, table, conds...)
}
func (w *DBWrap) Get(db, table, uuid string) (model.Model, error) {
	return w.Inner.Get(db, table, uuid)
}
func (w *DBWrap) GetReferences(db, table, row string) (database.References, error) {
	return w.Inner.GetReferences(db, table, row)
}

func (w *DBWrap) Commit(db string, id uuid.UUID, update database.Update) error {
	rec := &CommitRec{DB: db, By: simrt.SelfID(), ID: id.String()}
	sch := w.Schemas[db]
	simrt.Atomic(func() {
		rec.N = len(w.Commits) + 1
		w.Commits = append(w.Commits, rec)
		w.inCommit++
		if w.inCommit > 1 {
			w.Overlap++
		}
		if w.Snap && sch != nil {
			rec.Before = Snapshot(w.Inner, db, sch)
		}
	})
	if w.FailCommit != nil {
		if err := w.FailCommit(rec.N); err != nil {
			rec.Err = err
			simrt.Atomic(func() { w.inCommit-- })
			return err
		}
	}
	err := w.Inner.Commit(db, id, update)
	rec.Err = err
	simrt.Atomic(func() {
		if w.Snap && sch != nil {
			rec.After = Snapshot(w.Inner, db, sch)
			rec.Refs = SnapshotRefs(w.Inner, db, rec.After)
		}
		w.inCommit--
		if w.OnCommit != nil {
			w.OnCommit(rec)
		}
	})
	return err
}

// Snapshot reads every table through the Database interface.
func Snapshot(d database.Database, db string, sch *Schema) DBState {
	st := DBState{}
	for _, tn := range sch.TableNames {
		rows, err := d.List(db, tn)
		if err != nil {
			panic(fmt.Sprintf("snapshot: list %s: %v", tn, err))
		}
		td := TableData{}
		for u, m := range rows {
			r, mu := RowFromModel(sch.Tables[tn], m)
			if mu != u {
				// a row stored under a key different from its own _uuid is
				// itself a finding; keep both visible
				r["__key_mismatch"] = SetOf(AStr(mu))
			}
			td[u] = r
		}
		st[tn] = td
	}
	return st
}

// SnapshotRefs reads the incrementally maintained reference index for every
// stored row and renders it canonically.
func SnapshotRefs(d database.Database, db string, st DBState) map[string]string {
	out := map[string]string{}
	for tn, td := range st {
		for u := range td {
			refs, err := d.GetReferences(db, tn, u)
			if err != nil {
				panic(err)
			}
			out[tn+"/"+u] = CanonRefs(refs)
		}
	}
	return out
}

func CanonRefs(refs database.References) string {
	var parts []string
	for spec, ref := range refs {
		for to, from := range ref {
			f := append([]string(nil), from...)
			sort.Strings(f)
			if len(f) == 0 {
				continue
			}
			kv := "k"
			if spec.FromValue {
				kv = "v"
			}
			parts = append(parts, fmt.Sprintf("%s.%s(%s)->%s:%s[%s]", spec.FromTable, spec.FromColumn, kv, spec.ToTable, to, strings.Join(f, ",")))
		}
	}
	sort.Strings(parts)
	return strings.Join(parts, ";")
}
