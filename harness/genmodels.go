package harness

import (
	"bytes"
	"embed"
	"fmt"
	"reflect"

	"github.com/ovn-org/libovsdb/model"

	"verif/harness/ks0"
	"verif/harness/ks1"
	"verif/harness/ks2"
)

// Generated models: prep.sh runs the repository's own cmd/modelgen (-extended:
// deep-copy and comparison methods) on harness/schemas/ks<variant>.ovsschema,
// the JSON of KitchenSink(variant), and puts the result in packages ks0..ks2.
// A run that selects "genmodels" uses these structs for the server and for every
// client instead of the reflect.StructOf ones, so that model.Clone / model.Equal
// take the CloneableModel / ComparableModel path of generated code.

//go:embed schemas/*.ovsschema
var schemaFiles embed.FS

// SchemaFilesCurrent checks that the committed schema files (the input of
// modelgen) are what KitchenSink produces.
func SchemaFilesCurrent() error {
	for v := 0; v < 3; v++ {
		b, err := schemaFiles.ReadFile(fmt.Sprintf("schemas/ks%d.ovsschema", v))
		if err != nil {
			return err
		}
		if !bytes.Equal(b, KitchenSink(v).JSON()) {
			return fmt.Errorf("harness/schemas/ks%d.ovsschema is stale: regenerate it from KitchenSink(%d).JSON()", v, v)
		}
	}
	return nil
}

// GeneratedClientModel returns the generated database model of a schema variant.
func GeneratedClientModel(variant int) (model.ClientDBModel, map[string]reflect.Type, error) {
	var cm model.ClientDBModel
	var err error
	var ms []model.Model
	switch variant {
	case 0:
		cm, err = ks0.FullDatabaseModel()
		ms = []model.Model{&ks0.Root{}, &ks0.Child{}, &ks0.Item{}, &ks0.Grand{}, &ks0.Plain{}, &ks0.Flat{}}
	case 1:
		cm, err = ks1.FullDatabaseModel()
		ms = []model.Model{&ks1.Root{}, &ks1.Child{}, &ks1.Item{}, &ks1.Grand{}, &ks1.Plain{}, &ks1.Flat{}}
	default:
		cm, err = ks2.FullDatabaseModel()
		ms = []model.Model{&ks2.Root{}, &ks2.Child{}, &ks2.Item{}, &ks2.Grand{}, &ks2.Plain{}, &ks2.Flat{}}
	}
	types := map[string]reflect.Type{}
	for _, m := range ms {
		ty := reflect.TypeOf(m).Elem()
		types[ty.Name()] = ty
	}
	return cm, types, err
}

// fieldByCol finds the struct field that maps a column (by its ovsdb tag).
func fieldByCol(v reflect.Value, col string) reflect.Value {
	t := v.Type()
	for i := 0; i < t.NumField(); i++ {
		if t.Field(i).Tag.Get("ovsdb") == col {
			return v.Field(i)
		}
	}
	return reflect.Value{}
}
