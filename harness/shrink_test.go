package harness

import (
	"encoding/json"
	"flag"
	"fmt"
	"os"
	"testing"
	"time"
)

var (
	fShrink    = flag.String("shrink", "", "replay file to minimise")
	fShrinkOut = flag.String("shrinkout", "", "where to write the minimised replay")
	fBudget    = flag.Int("budget", 60, "shrinking budget in seconds")
)

func cloneCfg(c *RunCfg) *RunCfg {
	var o RunCfg
	b, _ := json.Marshal(c)
	_ = json.Unmarshal(b, &o)
	return &o
}

// TestShrink minimises a failing configuration: it drops transactions,
// monitors, clients' options and faults, simplifies the knobs and zeroes /
// truncates the schedule tape, keeping a candidate only if the same violation
// class (oracle id and key) is reported again.
func TestShrink(t *testing.T) {
	if *fShrink == "" {
		t.Skip("no -shrink")
	}
	cfg, err := LoadReplay(*fShrink)
	if err != nil {
		fmt.Fprintln(realStderr, err)
		os.Exit(2)
	}
	deadline := time.Now().Add(time.Duration(*fBudget) * time.Second)
	base := RunOne(t, cfg, false)
	if base.Violation == nil {
		fmt.Fprintln(realStderr, "shrink: the input does not reproduce a violation")
		os.Exit(3)
	}
	want := base.Violation.Oracle + "|" + base.Violation.Key
	cur := cloneCfg(cfg)
	cur.Schedule = base.Tape
	if cur.Schedule == nil {
		cur.Schedule = []uint16{}
	}
	cur.Expect = base.Violation.Oracle
	tries, kept := 0, 0
	try := func(c *RunCfg) bool {
		if time.Now().After(deadline) {
			return false
		}
		tries++
		r := RunOne(t, c, false)
		if r.Violation != nil && r.Violation.Oracle+"|"+r.Violation.Key == want && r.HarnessErr == "" {
			// adopt the tape actually consumed (it may be shorter)
			c.Schedule = r.Tape
			if c.Schedule == nil {
				c.Schedule = []uint16{}
			}
			cur = c
			kept++
			return true
		}
		return false
	}
	// 1. simplify knobs
	for _, f := range []func(c *RunCfg){
		func(c *RunCfg) { c.YieldPermil = 0 },
		func(c *RunCfg) { c.PermuteMaps = false },
		func(c *RunCfg) { c.MaxFragment = 0 },
		func(c *RunCfg) { c.Stick = 1 },
	} {
		c := cloneCfg(cur)
		f(c)
		try(c)
	}
	// 2. zero the whole tape, then halves
	{
		c := cloneCfg(cur)
		c.Schedule = []uint16{}
		try(c)
	}
	// 3. delta-debug lists
	ddList := func(n func(c *RunCfg) int, drop func(c *RunCfg, i, k int)) {
		for chunk := n(cur); chunk >= 1; chunk /= 2 {
			for i := 0; i+chunk <= n(cur); {
				c := cloneCfg(cur)
				drop(c, i, chunk)
				if !try(c) {
					i += chunk
				}
				if time.Now().After(deadline) {
					return
				}
			}
		}
	}
	ddList(func(c *RunCfg) int { return len(c.Faults) }, func(c *RunCfg, i, k int) { c.Faults = append(c.Faults[:i:i], c.Faults[i+k:]...) })
	ddList(func(c *RunCfg) int { return len(c.Txns) }, func(c *RunCfg, i, k int) {
		c.Txns = append(c.Txns[:i:i], c.Txns[i+k:]...)
		for j := range c.Monitors {
			if c.Monitors[j].AfterTxn > i {
				c.Monitors[j].AfterTxn -= k
				if c.Monitors[j].AfterTxn < i {
					c.Monitors[j].AfterTxn = i
				}
			}
		}
		for j := range c.Faults {
			if c.Faults[j].AfterTxn > i {
				c.Faults[j].AfterTxn -= k
				if c.Faults[j].AfterTxn < i {
					c.Faults[j].AfterTxn = i
				}
			}
		}
	})
	ddList(func(c *RunCfg) int { return len(c.Monitors) }, func(c *RunCfg, i, k int) { c.Monitors = append(c.Monitors[:i:i], c.Monitors[i+k:]...) })
	ddList(func(c *RunCfg) int { return len(c.Clients) }, func(c *RunCfg, i, k int) { c.Clients = append(c.Clients[:i:i], c.Clients[i+k:]...) })
	// 4. tape: zero chunks (towards the default policy), then truncate
	for chunk := len(cur.Schedule) / 2; chunk >= 1 && !time.Now().After(deadline); chunk /= 2 {
		for i := 0; i+chunk <= len(cur.Schedule); i += chunk {
			allZero := true
			for _, v := range cur.Schedule[i : i+chunk] {
				if v != 0 {
					allZero = false
				}
			}
			if allZero {
				continue
			}
			c := cloneCfg(cur)
			for j := i; j < i+chunk; j++ {
				c.Schedule[j] = 0
			}
			try(c)
			if time.Now().After(deadline) {
				break
			}
		}
		if chunk < 8 && len(cur.Schedule) > 400 {
			break
		}
	}
	// trailing zeros carry no information
	for len(cur.Schedule) > 0 && cur.Schedule[len(cur.Schedule)-1] == 0 {
		cur.Schedule = cur.Schedule[:len(cur.Schedule)-1]
	}
	final := RunOne(t, cur, true)
	if final.Violation == nil || final.Violation.Oracle+"|"+final.Violation.Key != want {
		fmt.Fprintln(realStderr, "shrink: minimised configuration stopped reproducing; keeping the original")
		cur = cloneCfg(cfg)
		cur.Schedule = base.Tape
		cur.Expect = base.Violation.Oracle
		final = base
	}
	out := map[string]any{"replay": cur, "violation": final.Violation, "tries": tries, "kept": kept, "log": final.Log}
	b, _ := json.MarshalIndent(out, "", " ")
	if *fShrinkOut != "" {
		rb, _ := json.MarshalIndent(cur, "", " ")
		if err := os.WriteFile(*fShrinkOut, rb, 0o644); err != nil {
			fmt.Fprintln(realStderr, err)
			os.Exit(2)
		}
	}
	fmt.Println(string(b))
}
