package harness

import (
	"encoding/json"
	"fmt"
	"reflect"
	"sort"
	"strings"

	"github.com/ovn-org/libovsdb/model"
	"github.com/ovn-org/libovsdb/ovsdb"
)

// Own schema representation (independent of libovsdb's decoder). The JSON the
// library sees is generated from it.

type BaseType struct {
	Type     string // integer real boolean string uuid
	Enum     []Atom
	RefTable string
	RefType  string // "strong" (default when RefTable set) or "weak"
}

type ColType struct {
	Key *BaseType
	Val *BaseType // non-nil: map
	Min int
	Max int // -1: unlimited
}

func (c *ColType) IsMap() bool      { return c.Val != nil }
func (c *ColType) IsScalar() bool   { return c.Val == nil && c.Min == 1 && c.Max == 1 }
func (c *ColType) IsOptional() bool { return c.Val == nil && c.Min == 0 && c.Max == 1 }

type Column struct {
	Name      string
	Type      ColType
	Immutable bool
}

type Table struct {
	Name     string
	Columns  map[string]*Column
	ColNames []string // sorted
	Indexes  [][]string
	IsRoot   bool
}

type Schema struct {
	Name       string
	Tables     map[string]*Table
	TableNames []string // sorted
}

func (s *Schema) finish() {
	s.TableNames = s.TableNames[:0]
	for n, t := range s.Tables {
		s.TableNames = append(s.TableNames, n)
		t.Name = n
		t.ColNames = t.ColNames[:0]
		for c, col := range t.Columns {
			col.Name = c
			t.ColNames = append(t.ColNames, c)
		}
		sort.Strings(t.ColNames)
	}
	sort.Strings(s.TableNames)
}

// RootSet: tables whose rows are never garbage collected. If no table is
// marked root, all are.
func (s *Schema) IsRoot(table string) bool {
	any := false
	for _, t := range s.Tables {
		if t.IsRoot {
			any = true
		}
	}
	if !any {
		return true
	}
	return s.Tables[table].IsRoot
}

func baseJSON(b *BaseType) any {
	if len(b.Enum) == 0 && b.RefTable == "" {
		return b.Type
	}
	o := map[string]any{"type": b.Type}
	if len(b.Enum) > 0 {
		els := []any{}
		for _, a := range b.Enum {
			els = append(els, AtomToWire(a))
		}
		o["enum"] = []any{"set", els}
	}
	if b.RefTable != "" {
		o["refTable"] = b.RefTable
		if b.RefType != "" {
			o["refType"] = b.RefType
		}
	}
	return o
}

// JSON renders the schema in RFC 7047 §3.2 form.
func (s *Schema) JSON() []byte {
	tables := map[string]any{}
	for tn, t := range s.Tables {
		cols := map[string]any{}
		for cn, c := range t.Columns {
			var ty any
			if c.Type.IsScalar() && len(c.Type.Key.Enum) == 0 && c.Type.Key.RefTable == "" {
				ty = c.Type.Key.Type
			} else if c.Type.IsScalar() {
				ty = map[string]any{"key": baseJSON(c.Type.Key)}
			} else {
				o := map[string]any{"key": baseJSON(c.Type.Key), "min": c.Type.Min}
				if c.Type.Val != nil {
					o["value"] = baseJSON(c.Type.Val)
				}
				if c.Type.Max < 0 {
					o["max"] = "unlimited"
				} else {
					o["max"] = c.Type.Max
				}
				ty = o
			}
			co := map[string]any{"type": ty}
			if c.Immutable {
				co["mutable"] = false
			}
			cols[cn] = co
		}
		to := map[string]any{"columns": cols}
		if len(t.Indexes) > 0 {
			to["indexes"] = t.Indexes
		}
		if t.IsRoot {
			to["isRoot"] = true
		}
		tables[tn] = to
	}
	return mustJSON(map[string]any{"name": s.Name, "version": "1.0.0", "tables": tables})
}

// LibSchema decodes the generated JSON with the library's own decoder.
func (s *Schema) LibSchema() (ovsdb.DatabaseSchema, error) {
	var ds ovsdb.DatabaseSchema
	err := json.Unmarshal(s.JSON(), &ds)
	return ds, err
}

func goBase(bt string) reflect.Type {
	switch bt {
	case "integer":
		return reflect.TypeOf(int(0))
	case "real":
		return reflect.TypeOf(float64(0))
	case "boolean":
		return reflect.TypeOf(false)
	}
	return reflect.TypeOf("")
}

// FieldName is the Go field name used for a column in run-time built models.
func FieldName(col string) string {
	if col == "_uuid" {
		return "UUID"
	}
	return "C_" + col
}

// ModelTypes builds one struct type per table with reflect.StructOf.
func (s *Schema) ModelTypes() map[string]reflect.Type {
	out := map[string]reflect.Type{}
	for _, tn := range s.TableNames {
		t := s.Tables[tn]
		fields := []reflect.StructField{
			{Name: "UUID", Type: reflect.TypeOf(""), Tag: `ovsdb:"_uuid"`},
		}
		for _, cn := range t.ColNames {
			c := t.Columns[cn]
			var ft reflect.Type
			switch {
			case c.Type.IsMap():
				ft = reflect.MapOf(goBase(c.Type.Key.Type), goBase(c.Type.Val.Type))
			case c.Type.IsScalar():
				ft = goBase(c.Type.Key.Type)
			case c.Type.IsOptional():
				ft = reflect.PointerTo(goBase(c.Type.Key.Type))
			default:
				ft = reflect.SliceOf(goBase(c.Type.Key.Type))
			}
			fields = append(fields, reflect.StructField{Name: FieldName(cn), Type: ft, Tag: reflect.StructTag(fmt.Sprintf(`ovsdb:"%s"`, cn))})
		}
		// a marker field makes the type unique per table (FindTable maps types to
		// tables); it goes last and is not zero-sized so that no mapped field
		// shares its offset (ColumnByPtr identifies fields by offset)
		fields = append(fields, reflect.StructField{Name: "T_" + sanitize(s.Name) + "_" + sanitize(tn), Type: reflect.TypeOf(false), Tag: `json:"-"`})
		out[tn] = reflect.StructOf(fields)
	}
	return out
}

func sanitize(s string) string {
	return strings.Map(func(r rune) rune {
		if r == '_' || (r >= 'a' && r <= 'z') || (r >= 'A' && r <= 'Z') || (r >= '0' && r <= '9') {
			return r
		}
		return '_'
	}, s)
}

// ClientModel builds a model.ClientDBModel over run-time built struct types.
func (s *Schema) ClientModel() (model.ClientDBModel, map[string]reflect.Type, error) {
	types := s.ModelTypes()
	models := map[string]model.Model{}
	for tn, ty := range types {
		models[tn] = reflect.New(ty).Interface()
	}
	cm, err := model.NewClientDBModel(s.Name, models)
	return cm, types, err
}

// ---- catalogue ---------------------------------------------------------------

func bt(t string) *BaseType { return &BaseType{Type: t} }
func ref(table, kind string) *BaseType {
	return &BaseType{Type: "uuid", RefTable: table, RefType: kind}
}
func scalar(b *BaseType) ColType              { return ColType{Key: b, Min: 1, Max: 1} }
func optional(b *BaseType) ColType            { return ColType{Key: b, Min: 0, Max: 1} }
func setOf(b *BaseType, min, max int) ColType { return ColType{Key: b, Min: min, Max: max} }
func mapOf(k, v *BaseType) ColType            { return ColType{Key: k, Val: v, Min: 0, Max: -1} }
func col(t ColType) *Column                   { return &Column{Type: t} }

// KitchenSink covers the column kinds the properties quantify over: every
// atomic type as scalar/optional/set/map, enums, an immutable column, strong
// and weak references in scalar-optional, set, map-key and map-value position,
// self references, a chain of non-root tables, single and multi-column indexes.
func KitchenSink(variant int) *Schema {
	s := &Schema{Name: "KS", Tables: map[string]*Table{}}
	enumABC := &BaseType{Type: "string", Enum: []Atom{AStr("a"), AStr("b"), AStr("c")}}
	s.Tables["Root"] = &Table{IsRoot: true, Indexes: [][]string{{"name"}, {"ia", "ib"}}, Columns: map[string]*Column{
		"name":     col(scalar(bt("string"))),
		"ia":       col(scalar(bt("integer"))),
		"ib":       col(scalar(bt("string"))),
		"num":      col(scalar(bt("integer"))),
		"ratio":    col(scalar(bt("real"))),
		"flag":     col(scalar(bt("boolean"))),
		"ostr":     col(optional(bt("string"))),
		"oint":     col(optional(bt("integer"))),
		"obool":    col(optional(bt("boolean"))),
		"tags":     col(setOf(bt("string"), 0, -1)),
		"nums":     col(setOf(bt("integer"), 0, -1)),
		"reals":    col(setOf(bt("real"), 0, 4)),
		"props":    col(mapOf(bt("string"), bt("string"))),
		"counts":   col(mapOf(bt("string"), bt("integer"))),
		"imap":     col(mapOf(bt("integer"), bt("boolean"))),
		"kind":     col(scalar(enumABC)),
		"kinds":    col(setOf(enumABC, 0, 3)),
		"imm":      {Type: scalar(bt("string")), Immutable: true},
		"child":    col(optional(ref("Child", "strong"))),
		"children": col(setOf(ref("Child", "strong"), 0, -1)),
		"kids":     col(setOf(ref("Child", "strong"), 0, 3)), // bounded set of references
		"cmap":     col(mapOf(bt("string"), ref("Child", "strong"))),
		"wpeer":    col(optional(ref("Root", "weak"))),
		"witems":   col(setOf(ref("Item", "weak"), 0, -1)),
		"plain":    col(optional(bt("uuid"))),
	}}
	s.Tables["Child"] = &Table{Indexes: [][]string{{"cname"}}, Columns: map[string]*Column{
		"cname":   col(scalar(bt("string"))),
		"val":     col(scalar(bt("integer"))),
		"grands":  col(setOf(ref("Grand", "strong"), 0, -1)),
		"sibling": col(optional(ref("Child", "weak"))),
		"next":    col(optional(ref("Child", "strong"))),
		"notes":   col(mapOf(bt("string"), bt("string"))),
	}}
	s.Tables["Grand"] = &Table{Columns: map[string]*Column{
		"gname": col(scalar(bt("string"))),
		"gval":  col(scalar(bt("integer"))),
		"back":  col(optional(ref("Root", "weak"))),
		"wmap":  col(mapOf(bt("string"), ref("Item", "weak"))),
	}}
	s.Tables["Item"] = &Table{IsRoot: true, Indexes: [][]string{{"iname"}, {"sa", "sb"}}, Columns: map[string]*Column{
		"iname": col(scalar(bt("string"))),
		// two string columns under one index, fed from a pool whose values
		// concatenate ambiguously ("a"+"b" = "ab"+"")
		"sa":     col(scalar(bt("string"))),
		"sb":     col(scalar(bt("string"))),
		"qty":    col(scalar(bt("integer"))),
		"need":   col(setOf(ref("Child", "weak"), 1, -1)),
		"kmap":   col(mapOf(ref("Child", "strong"), bt("string"))),
		"owner":  col(optional(ref("Root", "strong"))),
		"marker": col(setOf(bt("string"), 0, -1)),
	}}
	// a table without any uuid-typed column (rows are still addressed by _uuid)
	s.Tables["Plain"] = &Table{IsRoot: true, Indexes: [][]string{{"pname"}}, Columns: map[string]*Column{
		"pname": col(scalar(bt("string"))),
		"pval":  col(scalar(bt("integer"))),
		"ptags": col(setOf(bt("string"), 0, -1)),
		"pmap":  col(mapOf(bt("string"), bt("integer"))),
	}}
	// a table with scalar columns only (no set, map or optional column at all)
	s.Tables["Flat"] = &Table{IsRoot: true, Indexes: [][]string{{"fname"}}, Columns: map[string]*Column{
		"fname": col(scalar(bt("string"))),
		"fval":  col(scalar(bt("integer"))),
		"fflag": col(scalar(bt("boolean"))),
		"freal": col(scalar(bt("real"))),
	}}
	// columns with the same name in several tables (a monitor may select them in one table and not in another)
	for _, tn := range []string{"Root", "Child", "Grand", "Item", "Plain"} {
		s.Tables[tn].Columns["note"] = col(optional(bt("string")))
		s.Tables[tn].Columns["rank"] = col(scalar(bt("integer")))
	}
	switch variant % 3 {
	case 1:
		// no table marked root: every table is root, nothing is collected
		for _, t := range s.Tables {
			t.IsRoot = false
		}
		s.Name = "KSallroot"
	case 2:
		// no indexes at all, and Item becomes non-root too
		for _, t := range s.Tables {
			t.Indexes = nil
		}
		s.Tables["Item"].IsRoot = false
		s.Name = "KSnoidx"
	}
	s.finish()
	return s
}
