package harness

import (
	"encoding/json"
	"fmt"
	"os"
	"time"

	"github.com/ovn-org/libovsdb/simrt"
)

// RunCfg is everything that defines one simulated run besides the code: it is
// derived from the seed, and is what a replay file stores (explicitly, so that
// the shrinker can edit it).
type RunCfg struct {
	Property string `json:"property"`
	Scenario string `json:"scenario"`
	Seed     uint64 `json:"seed"`

	SchemaVariant int      `json:"schema_variant"`
	YieldPermil   int      `json:"yield_permil"`
	PermuteMaps   bool     `json:"permute_maps"`
	Stick         int      `json:"stick"`
	MaxFragment   int      `json:"max_fragment"`
	TapeLimit     int      `json:"tape_limit"`
	Slow          []string `json:"slow,omitempty"` // goroutine classes scheduled ~30x less often

	Txns     []TxnSpec      `json:"txns"`
	Monitors []MonSpec      `json:"monitors"`
	Clients  []ClientSpec   `json:"clients,omitempty"`
	Faults   []FaultSpec    `json:"faults,omitempty"`
	Knobs    map[string]int `json:"knobs,omitempty"`

	// Schedule, when present, replaces the seeded tape.
	Schedule []uint16 `json:"schedule,omitempty"`
	Expect   string   `json:"expect,omitempty"` // oracle id the replay is expected to trip
}

type TxnSpec struct {
	Actor   string `json:"actor"`
	GenSeed uint64 `json:"gen_seed"`
	Profile string `json:"profile"`
	// At: issue after this many earlier transactions of other actors completed (scenario specific)
	Kind string `json:"kind,omitempty"`
	Arg  int    `json:"arg,omitempty"`
}

type MonSpec struct {
	Owner      string               `json:"owner"`
	Method     string               `json:"method"`
	AfterTxn   int                  `json:"after_txn"` // established once this many transactions were issued
	Tables     map[string]*MonTable `json:"tables"`
	Concurrent bool                 `json:"concurrent,omitempty"` // issue while a transaction is in flight
	Delay      int                  `json:"delay,omitempty"`      // concurrent: start the monitor this many scheduling steps after the transaction was sent
	Burst      int                  `json:"burst,omitempty"`      // concurrent: the writer sends this many more transactions without waiting
}

type ClientSpec struct {
	Name       string   `json:"name"`
	Reconnect  bool     `json:"reconnect"`
	Inactivity int      `json:"inactivity_ms,omitempty"`
	LeaderOnly bool     `json:"leader_only,omitempty"`
	Endpoints  []string `json:"endpoints,omitempty"`
	Indexes    bool     `json:"indexes,omitempty"`
}

type FaultSpec struct {
	Kind     string `json:"kind"`
	Link     string `json:"link,omitempty"` // logical: owner name, or endpoint
	Dir      int    `json:"dir,omitempty"`
	Frame    int    `json:"frame,omitempty"` // frame ordinal on that link/direction
	Bytes    int    `json:"bytes,omitempty"` // torn frame: bytes delivered before the cut
	AfterTxn int    `json:"after_txn,omitempty"`
	Ms       int    `json:"ms,omitempty"`
	N        int    `json:"n,omitempty"`
}

func (c *RunCfg) Knob(name string, def int) int {
	if v, ok := c.Knobs[name]; ok {
		return v
	}
	return def
}

// Result is what one run reports.
type Result struct {
	Property   string         `json:"property"`
	Seed       uint64         `json:"seed"`
	Scenario   string         `json:"scenario"`
	Violation  *Violation     `json:"violation,omitempty"`
	HarnessErr string         `json:"harness_err,omitempty"`
	Steps      int            `json:"steps"`
	Choices    int            `json:"choice_points"`
	SimMs      int64          `json:"sim_ms"`
	WallMs     int64          `json:"wall_ms"`
	Sig        string         `json:"sig"`
	Digest     string         `json:"digest"`
	NonTrivial bool           `json:"nontrivial"`
	Stats      simrt.Stats    `json:"stats"`
	Probes     map[string]int `json:"probes,omitempty"`
	Faults     map[string]int `json:"faults,omitempty"`
	Known      map[string]int `json:"known,omitempty"`
	OutOfSteps bool           `json:"out_of_steps,omitempty"`
	Aborted    string         `json:"aborted,omitempty"`
	Cfg        *RunCfg        `json:"cfg,omitempty"`
	Tape       []uint16       `json:"tape,omitempty"`
	Sample     any            `json:"sample,omitempty"`
	Log        []string       `json:"log,omitempty"`
	Checked    int            `json:"checked"` // oracle evaluations on non-empty state
}

func LoadReplay(path string) (*RunCfg, error) {
	b, err := os.ReadFile(path)
	if err != nil {
		return nil, err
	}
	var c RunCfg
	if err := json.Unmarshal(b, &c); err != nil {
		return nil, fmt.Errorf("%s: %w", path, err)
	}
	return &c, nil
}

func ms(n int) time.Duration { return time.Duration(n) * time.Millisecond }

// slowClasses picks, for about half of the runs, one class of goroutines to be
// the slow party. Classes are substrings of logical goroutine ids: harness
// actors are "<client>.<call>", the client's read loop is spawned at
// client:<line of "go o.rpcClient.Run()">, server handlers are
// "rpc2.Client.handleRequest", the event dispatcher "cache:".
func slowClasses(r interface{ Intn(int) int }, classes ...string) []string {
	if r.Intn(2) == 0 || len(classes) == 0 {
		return nil
	}
	return []string{classes[r.Intn(len(classes))]}
}
