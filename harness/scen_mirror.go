package harness

import (
	"context"
	"fmt"
	"reflect"
	"sort"
	"strings"
	"time"

	"github.com/ovn-org/libovsdb/client"
	"github.com/ovn-org/libovsdb/model"
	"github.com/ovn-org/libovsdb/ovsdb"
	"github.com/ovn-org/libovsdb/simrt"
)

// Scenario S3 "client-mirror": the built-in server, 1-3 real clients with
// random monitors (first and additional monitors, all three methods, column
// subsets) established at random points of a history and concurrently with
// writes; a writer (raw peer, or a real client for read-your-writes). Serves
// C01, C05 (client caches), C13 and C14.

type cliMon struct {
	spec   MonSpec
	cookie client.MonitorCookie
	done   bool
	err    error
	call   *Call
}

type mirrorClient struct {
	ci      *ClientInst
	spec    ClientSpec
	mons    []*cliMon
	events  []cacheEvent
	events2 []cacheEvent
	tables  map[string][]string // monitored table -> columns
}

type cacheEvent struct {
	Kind  string
	Table string
	UUID  string
	Old   Row
	New   Row
}

type s3 struct {
	e        *Env
	cfg      *RunCfg
	srv      *ServerInst
	w        *RawPeer
	cw       *mirrorClient // writer client for read-your-writes (may be nil)
	cls      []*mirrorClient
	db       string
	ryw      int
	bare     *bareCache
	bareLast DBState
}

func init() {
	for _, p := range []string{"C01", "C05", "C13", "C14"} {
		cfgByProp[p] = cfgS3
	}
	runByScenario["S3"] = runS3
}

func cfgS3(prop string, seed uint64, tier string) *RunCfg {
	r := simrt.NewRand(seed ^ 0x5353)
	c := &RunCfg{Property: prop, Scenario: "S3", Seed: seed, Knobs: map[string]int{}}
	c.SchemaVariant = r.Intn(3)
	c.YieldPermil = []int{0, 30, 150, 400}[r.Intn(4)]
	c.PermuteMaps = r.Intn(10) != 0
	c.Stick = []int{1, 4, 16}[r.Intn(3)]
	c.MaxFragment = []int{0, 0, 0, 64, 700}[r.Intn(5)]
	n := 8 + r.Intn(12)
	if tier == "thorough" {
		n = 10 + r.Intn(30)
	}
	prof := []string{"valid-sw", "mixed-sw", "refs", "samerow", "index"}[r.Intn(5)]
	c.Knobs["client_writer"] = r.Intn(2)
	stubFed := (prop == "C01" || prop == "C14") && r.Intn(6) == 0
	c.Slow = slowClasses(r, ".mon", "handleRequest", "cache:", "/client:") // transactions go through a real client (read-your-writes)
	for i := 0; i < n; i++ {
		p := prof
		if i < 3 {
			p = "valid-sw"
		}
		c.Txns = append(c.Txns, TxnSpec{Actor: "w", GenSeed: r.Uint64(), Profile: p})
	}
	sch := KitchenSink(c.SchemaVariant)
	ncl := 1 + r.Intn(2)
	if tier == "thorough" {
		ncl = 1 + r.Intn(3)
	}
	for k := 0; k < ncl; k++ {
		name := fmt.Sprintf("c%d", k)
		c.Clients = append(c.Clients, ClientSpec{Name: name, Indexes: r.Intn(2) == 0})
		// 1-3 monitors over disjoint tables
		tabs := append([]string(nil), sch.TableNames...)
		for i := len(tabs) - 1; i > 0; i-- {
			j := r.Intn(i + 1)
			tabs[i], tabs[j] = tabs[j], tabs[i]
		}
		nm := 1 + r.Intn(3)
		if nm > len(tabs) {
			nm = len(tabs)
		}
		per := len(tabs) / nm
		for m := 0; m < nm; m++ {
			part := tabs[m*per : (m+1)*per]
			if m == nm-1 {
				part = tabs[m*per:]
			}
			ms := MonSpec{Owner: name, AfterTxn: r.Intn(n/2 + 1), Tables: map[string]*MonTable{}, Concurrent: r.Intn(2) == 0}
			if ms.Concurrent && r.Intn(2) == 0 {
				ms.Delay = 1 + r.Intn(80)
			}
			if ms.Concurrent && r.Intn(2) == 0 {
				ms.Burst = 1 + r.Intn(4)
			}
			ms.Method = []string{"monitor", "monitor_cond", "monitor_cond_since"}[r.Intn(3)]
			for _, tn := range part {
				t := sch.Tables[tn]
				mt := &MonTable{Initial: true, Insert: true, Delete: true, Modify: true}
				if r.Intn(3) != 0 {
					mt.Columns = append([]string(nil), t.ColNames...)
				} else {
					for _, cn := range t.ColNames {
						if r.Intn(2) == 0 || isIndexLike(cn) {
							mt.Columns = append(mt.Columns, cn)
						}
					}
					if len(mt.Columns) == 0 {
						mt.Columns = []string{t.ColNames[0]}
					}
				}
				ms.Tables[tn] = mt
			}
			c.Monitors = append(c.Monitors, ms)
		}
	}
	if stubFed {
		c.Scenario = "S3R" // fed by the stub server (update3; for C14 also refused notifications)
	}
	return c
}

// clientIndexes builds a few client indexes over plain, optional and map-key
// columns, one of them overlapping a schema index.
func clientIndexes(sch *Schema) map[string][]model.ClientIndex {
	o := map[string][]model.ClientIndex{}
	if t := sch.Tables["Root"]; t != nil {
		o["Root"] = []model.ClientIndex{
			{Columns: []model.ColumnKey{{Column: "num"}}},
			{Columns: []model.ColumnKey{{Column: "ostr"}}},
			{Columns: []model.ColumnKey{{Column: "props", Key: "k0"}}},
			{Columns: []model.ColumnKey{{Column: "name"}}},
			{Columns: []model.ColumnKey{{Column: "flag"}, {Column: "kind"}}},
		}
	}
	if t := sch.Tables["Child"]; t != nil {
		o["Child"] = []model.ClientIndex{{Columns: []model.ColumnKey{{Column: "val"}}}}
	}
	return o
}

func (s *s3) newClient(spec ClientSpec) *mirrorClient {
	e := s.e
	o := ClientOpts{}
	if spec.Indexes {
		o.Indexes = clientIndexes(e.Sch)
	}
	ci := e.NewClient(spec.Name, []string{epMain}, o)
	if ci == nil {
		return nil
	}
	mc := &mirrorClient{ci: ci, spec: spec, tables: map[string][]string{}}
	if err := e.ConnectClient(ci, 5*time.Second); err != nil {
		if !e.Stopped() {
			e.Fatalf("client %s cannot connect in a fault-free run: %v", spec.Name, err)
		}
		return nil
	}
	// event handlers are registered before the history this client sees
	mk := func(dst *[]cacheEvent) *handlerRec { return &handlerRec{e: e, dst: dst} }
	ci.C.Cache().AddEventHandler(mk(&mc.events))
	ci.C.Cache().AddEventHandler(mk(&mc.events2))
	return mc
}

type handlerRec struct {
	e   *Env
	dst *[]cacheEvent
}

func (h *handlerRec) rec(kind, table string, old, new model.Model) {
	t := h.e.Sch.Tables[table]
	ev := cacheEvent{Kind: kind, Table: table}
	if old != nil {
		ev.Old, ev.UUID = RowFromModel(t, old)
	}
	if new != nil {
		ev.New, ev.UUID = RowFromModel(t, new)
	}
	*h.dst = append(*h.dst, ev)
	// C13: scribble on what we were handed; the cache and the other
	// handlers must not notice
	if h.e.Property == "C13" {
		scribble(old)
		scribble(new)
	}
}
func (h *handlerRec) OnAdd(table string, m model.Model)       { h.rec("add", table, nil, m) }
func (h *handlerRec) OnUpdate(table string, o, n model.Model) { h.rec("update", table, o, n) }
func (h *handlerRec) OnDelete(table string, m model.Model)    { h.rec("delete", table, m, nil) }

// scribble overwrites every mapped field of a model in place: scalars are
// changed, slices are written into and appended to, maps get a new key and
// have existing values replaced, pointers are written through.
func scribble(m model.Model) {
	if m == nil {
		return
	}
	rv := reflect.ValueOf(m)
	if rv.Kind() != reflect.Pointer || rv.IsNil() {
		return
	}
	rv = rv.Elem()
	for i := 0; i < rv.NumField(); i++ {
		f := rv.Field(i)
		if rv.Type().Field(i).Tag.Get("ovsdb") == "" || !f.CanSet() {
			continue
		}
		scribbleValue(f)
	}
}

func scribbleAtom(f reflect.Value) {
	switch f.Kind() {
	case reflect.String:
		f.SetString(f.String() + "#scribbled")
	case reflect.Int:
		f.SetInt(f.Int() + 7777)
	case reflect.Float64:
		f.SetFloat(f.Float() + 7777.5)
	case reflect.Bool:
		f.SetBool(!f.Bool())
	}
}

func scribbleValue(f reflect.Value) {
	switch f.Kind() {
	case reflect.Pointer:
		if !f.IsNil() {
			scribbleAtom(f.Elem())
		}
	case reflect.Slice:
		for j := 0; j < f.Len(); j++ {
			scribbleAtom(f.Index(j))
		}
		if f.Cap() > f.Len() {
			// write into spare capacity shared with the original
			g := f.Slice(0, f.Len()+1)
			scribbleAtom(g.Index(f.Len()))
		}
		z := reflect.New(f.Type().Elem()).Elem()
		scribbleAtom(z)
		f.Set(reflect.Append(f, z))
	case reflect.Map:
		if f.IsNil() {
			return
		}
		for _, k := range f.MapKeys() {
			v := reflect.New(f.Type().Elem()).Elem()
			v.Set(f.MapIndex(k))
			scribbleAtom(v)
			f.SetMapIndex(k, v)
		}
		k := reflect.New(f.Type().Key()).Elem()
		scribbleAtom(k)
		v := reflect.New(f.Type().Elem()).Elem()
		scribbleAtom(v)
		f.SetMapIndex(k, v)
	default:
		scribbleAtom(f)
	}
}

// fieldPtrs returns pointers to the fields of m that map the given columns.
func fieldPtrs(m any, cols []string) []interface{} {
	rv := reflect.ValueOf(m).Elem()
	var out []interface{}
	for _, c := range cols {
		f := rv.FieldByName(FieldName(c))
		if f.IsValid() {
			out = append(out, f.Addr().Interface())
		}
	}
	return out
}

func (s *s3) startMonitor(mc *mirrorClient, spec MonSpec) *cliMon {
	e := s.e
	cm := &cliMon{spec: spec}
	var opts []client.MonitorOption
	for _, tn := range SortedKeys(spec.Tables) {
		mt := spec.Tables[tn]
		m := reflect.New(e.Types[tn]).Interface()
		t := e.Sch.Tables[tn]
		if len(mt.Columns) == len(t.ColNames) {
			opts = append(opts, client.WithTable(m))
		} else {
			opts = append(opts, client.WithTable(m, fieldPtrs(m, mt.Columns)...))
		}
	}
	mon := mc.ci.C.NewMonitor(opts...)
	switch spec.Method {
	case "monitor":
		mon.Method = ovsdb.MonitorRPC
	case "monitor_cond":
		mon.Method = ovsdb.ConditionalMonitorRPC
	default:
		mon.Method = ovsdb.ConditionalMonitorSinceRPC
	}
	name := fmt.Sprintf("%s.mon%d", mc.spec.Name, len(mc.mons))
	cm.call = e.Go(name, func(c *Call) {
		ctx, cancel := context.WithTimeout(context.Background(), 30*time.Second)
		defer cancel()
		cm.cookie, cm.err = mc.ci.C.Monitor(ctx, mon)
		c.Err = cm.err
	})
	mc.mons = append(mc.mons, cm)
	e.Probes["client_monitor_"+spec.Method]++
	if len(mc.mons) > 1 {
		e.Probes["additional_monitor"]++
	}
	return cm
}

func (s *s3) finishMonitor(mc *mirrorClient, cm *cliMon) bool {
	e := s.e
	if !e.WaitCall(cm.call) {
		if !e.Stopped() {
			s.hang("Monitor call of "+mc.spec.Name, cm.call)
		}
		return false
	}
	if cm.call.Panic != "" {
		e.ViolateK(e.Property+".panic", "Monitor", "Monitor panicked: %s", cm.call.Panic)
		return false
	}
	if cm.err != nil {
		e.ViolateK(e.Property+".monitor-failed", cm.spec.Method, "client %s: Monitor (%s) failed in a fault-free run: %v\nclient log: %v", mc.spec.Name, cm.spec.Method, cm.err, tail(mc.ci.Log.lines, 6))
		return false
	}
	cm.done = true
	for tn, mt := range cm.spec.Tables {
		mc.tables[tn] = mt.Columns
	}
	return true
}

func tail(l []string, n int) []string {
	if len(l) > n {
		return l[len(l)-n:]
	}
	return l
}

// hang reports a call that never returns in a fault-free run.
func (s *s3) hang(what string, c *Call) {
	e := s.e
	st := libStacks()
	key := calleeOf(st, "database/transaction.(*Transaction).Transact")
	if key != "" {
		e.Abort("server never answers (" + key + "): C04's concern")
		return
	}
	kind := "dead-lock"
	if e.Livelock != "" {
		kind = "endless loop"
	}
	e.ViolateK(e.Property+".hang", kind, "%s never returns in a fault-free run (%s; blocked: %v)\n%s", what, kind, e.Sim.Blocked(), trimStr(st, 5000))
}

func runS3(e *Env, cfg *RunCfg) {
	s := &s3{e: e, cfg: cfg, db: e.Sch.Name}
	s.srv = e.StartServer(epMain, false, nil)
	if e.Stopped() {
		return
	}
	var err error
	s.w, err = e.NewRawPeer("w", epMain)
	if err != nil {
		e.Fatalf("writer dial: %v", err)
		return
	}
	byName := map[string]*mirrorClient{}
	for _, cs := range cfg.Clients {
		mc := s.newClient(cs)
		if mc == nil {
			return
		}
		s.cls = append(s.cls, mc)
		byName[cs.Name] = mc
	}
	if cfg.Knob("client_writer", 0) == 1 {
		s.cw = s.newClient(ClientSpec{Name: "cw"})
		if s.cw == nil {
			return
		}
		// the writer monitors everything so that read-your-writes can be checked on all tables
		ms := MonSpec{Owner: "cw", Method: "monitor_cond", Tables: map[string]*MonTable{}}
		for _, tn := range e.Sch.TableNames {
			ms.Tables[tn] = &MonTable{Columns: e.Sch.Tables[tn].ColNames, Initial: true, Insert: true, Delete: true, Modify: true}
		}
		cm := s.startMonitor(s.cw, ms)
		if !s.finishMonitor(s.cw, cm) {
			return
		}
		s.cls = append(s.cls, s.cw)
	}
	for i, txn := range cfg.Txns {
		var pending []*cliMon
		var owners []*mirrorClient
		var late []MonSpec
		var lateOwners []*mirrorClient
		for _, m := range cfg.Monitors {
			if m.AfterTxn != i {
				continue
			}
			mc := byName[m.Owner]
			if mc == nil {
				continue
			}
			if m.Concurrent && s.cw == nil && (m.Delay > 0 || m.Burst > 0) {
				late = append(late, m)
				lateOwners = append(lateOwners, mc)
				continue
			}
			cm := s.startMonitor(mc, m)
			if m.Concurrent {
				// let the monitor request race with the next transaction
				pending = append(pending, cm)
				owners = append(owners, mc)
				e.Probes["monitor_concurrent_with_txn"]++
			} else if !s.finishMonitor(mc, cm) {
				return
			}
		}
		if len(late) > 0 {
			// the transaction goes first; the monitor requests follow a number of scheduling steps
			// later, and the writer may pipeline more transactions on the same rows meanwhile
			calls := []*RawCall{s.issue(i, txn, txn.GenSeed, txn.Profile)}
			for k, m := range late {
				e.RunSteps(m.Delay)
				if e.Stopped() {
					return
				}
				pending = append(pending, s.startMonitor(lateOwners[k], m))
				owners = append(owners, lateOwners[k])
				e.Probes["monitor_concurrent_with_txn"]++
				e.Probes["monitor_started_mid_txn"]++
				for b := 0; b < m.Burst; b++ {
					calls = append(calls, s.issue(i, txn, txn.GenSeed+uint64(1+b+10*k), []string{"hot", "hot", "samerow"}[(b+k)%3]))
					e.Probes["writer_burst_txn"]++
				}
			}
			if !e.RunUntil(func() bool {
				for _, c := range calls {
					if !c.Done {
						return false
					}
				}
				return true
			}) {
				if !e.Stopped() {
					s.hang(fmt.Sprintf("pipelined transactions around %d of the raw writer", i), nil)
				}
				return
			}
		} else if !s.transact(i, txn) {
			return
		}
		for k, cm := range pending {
			if !s.finishMonitor(owners[k], cm) {
				return
			}
		}
		if !e.Settle() {
			if !e.Stopped() {
				e.Fatalf("no quiescence after transaction %d", i)
			}
			return
		}
		s.checkAll(i)
		if e.Stopped() {
			return
		}
	}
}

// issue sends one generated transaction through the raw writer without waiting.
func (s *s3) issue(i int, txn TxnSpec, seed uint64, profile string) *RawCall {
	e := s.e
	before := DBState{}
	if n := len(s.srv.DB.Commits); n > 0 && s.srv.DB.Commits[n-1].After != nil {
		before = s.srv.DB.Commits[n-1].After
	}
	g := NewGen(e.Sch, seed, before, ProfileByName(profile), fmt.Sprintf("t%d_%d", i, seed%97))
	ops, _ := g.Txn()
	if profile == "hot" {
		// every transaction of a burst rewrites the same cells of one row with a value of its own:
		// any reordering or loss on the way to a cache leaves a visibly wrong final value
		ops = nil
		for _, tn := range e.Sch.TableNames {
			if us := SortedKeys(before[tn]); len(us) > 0 {
				ops = append(ops, Op{"op": "update", "table": tn, "where": []any{[]any{"_uuid", "==", []any{"uuid", us[0]}}}, "row": map[string]any{"rank": int(seed % 100000), "note": fmt.Sprintf("v%d", seed%100000)}})
			}
		}
		if ops == nil {
			ops, _ = g.Txn()
		}
	}
	ops = NormalizeOps(ops)
	e.Logf("txn %d (%s, pipelined): %s", i, profile, trimStr(string(mustJSON(ops)), 800))
	params := []any{s.db}
	for _, op := range ops {
		params = append(params, op)
	}
	return s.w.Call("transact", params)
}

// transact issues transaction i through the raw writer or the writer client.
func (s *s3) transact(i int, txn TxnSpec) bool {
	e := s.e
	before, _, ok := e.SnapshotDB(s.srv)
	if !ok {
		// a monitor request in flight may hold a lock; use the last commit
		if n := len(s.srv.DB.Commits); n > 0 && s.srv.DB.Commits[n-1].After != nil {
			before = s.srv.DB.Commits[n-1].After
		} else {
			before = DBState{}
		}
	}
	g := NewGen(e.Sch, txn.GenSeed, before, ProfileByName(txn.Profile), fmt.Sprintf("t%d", i))
	ops, meta := g.Txn()
	ops = NormalizeOps(ops)
	e.Logf("txn %d (%s, planted=%q): %s", i, txn.Profile, meta.Planted, mustJSON(ops))
	{
		var sb strings.Builder
		for _, op := range ops {
			fmt.Fprintf(&sb, "%v:%v,", op["op"], op["table"])
		}
		e.ShapeAdd(sb.String())
	}
	if s.cw == nil {
		params := []any{s.db}
		for _, op := range ops {
			params = append(params, op)
		}
		call := s.w.Call("transact", params)
		if !e.RunUntil(func() bool { return call.Done }) {
			if !e.Stopped() {
				s.hang(fmt.Sprintf("transact %d of the raw writer", i), nil)
			}
			return false
		}
		e.Logf("txn %d reply: %s %s", i, call.Result, call.ErrorStr)
		return true
	}
	// through the writer client: decode the operations with the library's own decoder
	var lops []ovsdb.Operation
	if err := jsonUnmarshal(mustJSON(ops), &lops); err != nil {
		e.Fatalf("cannot decode generated operations: %v", err)
		return false
	}
	commits0 := len(s.srv.DB.Commits)
	c := e.Go(fmt.Sprintf("cw.txn%d", i), func(c *Call) {
		ctx, cancel := context.WithTimeout(context.Background(), 60*time.Second)
		defer cancel()
		res, err := s.cw.ci.C.Transact(ctx, lops...)
		c.Err = err
		if err != nil {
			return
		}
		for _, r := range res {
			if r.Error != "" {
				return
			}
		}
		// read-your-writes: before this goroutine yields again, its own cache
		// must already hold the post-commit contents
		simrt.Atomic(func() {
			if len(s.srv.DB.Commits) == commits0 {
				return // no net effect: nothing was committed
			}
			after := s.srv.DB.Commits[len(s.srv.DB.Commits)-1].After
			got, ok := s.cacheState(s.cw)
			if !ok {
				return
			}
			s.ryw++
			e.Probes["read_your_writes_checked"]++
			if d := DiffStates(after, got, e.Sch.TableNames, nil); d != "" && len(integrityProblems(e.Sch, after)) == 0 {
				c.Result = d
			}
		})
	})
	if !e.WaitCall(c) {
		if !e.Stopped() {
			s.hang(fmt.Sprintf("Transact %d of the writer client", i), c)
		}
		return false
	}
	if c.Panic != "" {
		e.ViolateK(e.Property+".panic", "Transact", "Transact panicked: %s", c.Panic)
		return false
	}
	if d, ok := c.Result.(string); ok && d != "" && e.Property == "C01" {
		e.ViolateK("C01.read-your-writes", "", "transaction %d returned successfully but the caller's cache does not hold its effects yet (database vs cache):\n%s\nops: %s", i, d, shortOps(ops))
		return false
	}
	e.Logf("txn %d via client: err=%v", i, c.Err)
	return true
}

// cacheState reads a client's cache for every table into a DBState.
func (s *s3) cacheState(mc *mirrorClient) (DBState, bool) {
	e := s.e
	st := DBState{}
	tc := mc.ci.C.Cache()
	if tc == nil {
		return nil, false
	}
	for _, tn := range e.Sch.TableNames {
		rc := tc.Table(tn)
		if rc == nil {
			return nil, false
		}
		td := TableData{}
		for u, m := range rc.Rows() {
			r, mu := RowFromModel(e.Sch.Tables[tn], m)
			if mu != u {
				r["__key_mismatch"] = SetOf(AStr(mu))
			}
			td[u] = r
		}
		st[tn] = td
	}
	return st, true
}

func (s *s3) checkAll(i int) {
	e := s.e
	db, _, ok := e.SnapshotDB(s.srv)
	if !ok {
		return
	}
	if len(integrityProblems(e.Sch, db)) > 0 {
		// the database itself holds a dangling reference: a cache cannot sensibly be compared with it
		e.Abort("database violates referential integrity: C04's concern")
		return
	}
	if e.Property == "C05" {
		if s.bare == nil {
			s.bare = newBareCache(e, simrt.NewRand(s.cfg.Seed^0xba4e))
			s.bareLast = DBState{}
		}
		if s.bare != nil {
			s.bare.apply(e, s.bareLast, db)
			s.bareLast = db
			if e.Stopped() {
				return
			}
		}
		checkServerIndexes(e, s.srv, db, "C05.server-index")
		if e.Stopped() {
			return
		}
	}
	for _, mc := range s.cls {
		var got DBState
		okc, why := e.Sim.Try(func() { got, _ = s.cacheState(mc) })
		if !okc || got == nil {
			e.Logf("cache of %s not readable: %s", mc.spec.Name, why)
			continue
		}
		if len(mc.tables) == 0 {
			continue
		}
		tabs := SortedKeys(mc.tables)
		e.Probes["cache_vs_db_compared"]++
		if db.Rows() > 0 {
			e.Probes["checked_nonempty"]++
		}
		switch e.Property {
		case "C01":
			conn := true
			e.Sim.Try(func() { conn = mc.ci.C.Connected() })
			if !conn {
				e.ViolateK("C01.disconnected", "", "client %s is not connected after transaction %d of a fault-free run\nclient log: %v", mc.spec.Name, i, tail(mc.ci.Log.lines, 8))
				return
			}
			if d := DiffStates(db, got, tabs, mc.tables); d != "" {
				e.ViolateK("C01.mirror", s.mirrorKey(mc, db, got), "after transaction %d the cache of client %s differs from the database on monitored tables %v (database vs cache):\n%s\nmonitors: %s\nclient log: %v", i, mc.spec.Name, tabs, d, s.descMons(mc), tail(mc.ci.Log.lines, 6))
				return
			}
		case "C13":
			s.checkC13(i, mc, db, got)
		case "C14":
			s.checkC14(i, mc, got)
		case "C05":
			checkCacheIndexes(e, mc.ci, "client "+mc.spec.Name, mc.tables)
		}
		if e.Stopped() {
			return
		}
	}
}

func (s *s3) descMons(mc *mirrorClient) string {
	var parts []string
	for _, m := range mc.mons {
		parts = append(parts, fmt.Sprintf("%s%v(after txn %d, concurrent=%v)", m.spec.Method, SortedKeys(m.spec.Tables), m.spec.AfterTxn, m.spec.Concurrent))
	}
	return strings.Join(parts, " ")
}

// mirrorKey classifies the first differing cell: which monitor method feeds
// the table, whether that monitor was set up concurrently with a write, and
// whether the database value is the column's default (empty) value while the
// cache still holds something else.
func (s *s3) mirrorKey(mc *mirrorClient, db, got DBState) string {
	e := s.e
	for _, tn := range SortedKeys(mc.tables) {
		var mon *cliMon
		for _, m := range mc.mons {
			if _, ok := m.spec.Tables[tn]; ok {
				mon = m
			}
		}
		method, conc := "?", false
		if mon != nil {
			method, conc = mon.spec.Method, mon.spec.Concurrent
		}
		suffix := ""
		if conc {
			suffix = ":concurrent-setup"
		}
		us := map[string]bool{}
		for u := range db[tn] {
			us[u] = true
		}
		for u := range got[tn] {
			us[u] = true
		}
		for _, u := range sortedStrings(us) {
			dr, okd := db[tn][u]
			cr, okc := got[tn][u]
			if okd && !okc {
				return method + ":row-missing-in-cache" + suffix
			}
			if !okd && okc {
				return method + ":row-not-deleted-from-cache" + suffix
			}
			for _, c := range mc.tables[tn] {
				if dr[c].Eq(cr[c]) {
					continue
				}
				ct := &e.Sch.Tables[tn].Columns[c].Type
				if dr[c].Eq(omittedValue(ct)) {
					return method + ":value-returned-to-default-not-applied" + suffix
				}
				return method + ":stale-or-wrong-value" + suffix
			}
		}
	}
	return "other"
}

// ---- C14 events ------------------------------------------------------------------

func (s *s3) checkC14(i int, mc *mirrorClient, cacheNow DBState) {
	e := s.e
	// fold each handler's events over an empty table set
	fold := func(evs []cacheEvent, who string) DBState {
		st := DBState{}
		for _, tn := range e.Sch.TableNames {
			st[tn] = TableData{}
		}
		for k, ev := range evs {
			cur, have := st[ev.Table][ev.UUID]
			switch ev.Kind {
			case "add":
				if have {
					e.ViolateK("C14.sequence", "add-twice", "client %s handler %s event %d: add for row %s/%s which was already added", mc.spec.Name, who, k, ev.Table, ev.UUID)
					return nil
				}
				st[ev.Table][ev.UUID] = ev.New
			case "update":
				if !have {
					e.ViolateK("C14.sequence", "update-before-add", "client %s handler %s event %d: update for row %s/%s which was never added", mc.spec.Name, who, k, ev.Table, ev.UUID)
					return nil
				}
				if cur.String() != ev.Old.String() {
					e.ViolateK("C14.old-mismatch", "", "client %s handler %s event %d: update of %s/%s carries old=%s but the previous state of the row was %s", mc.spec.Name, who, k, ev.Table, ev.UUID, ev.Old, cur)
					return nil
				}
				st[ev.Table][ev.UUID] = ev.New
			case "delete":
				if !have {
					e.ViolateK("C14.sequence", "delete-before-add", "client %s handler %s event %d: delete for row %s/%s which is not present", mc.spec.Name, who, k, ev.Table, ev.UUID)
					return nil
				}
				if cur.String() != ev.Old.String() {
					e.ViolateK("C14.old-mismatch", "delete", "client %s handler %s event %d: delete of %s/%s carries %s but the previous state of the row was %s", mc.spec.Name, who, k, ev.Table, ev.UUID, ev.Old, cur)
					return nil
				}
				delete(st[ev.Table], ev.UUID)
			}
		}
		return st
	}
	if len(mc.events) != len(mc.events2) {
		// the dispatcher may be between the two handlers only while it runs; at quiescence both saw everything
		e.ViolateK("C14.handlers-differ", "count", "client %s: handler A saw %d events, handler B %d", mc.spec.Name, len(mc.events), len(mc.events2))
		return
	}
	for k := range mc.events {
		a, b := mc.events[k], mc.events2[k]
		if a.Kind != b.Kind || a.Table != b.Table || a.UUID != b.UUID || a.Old.String() != b.Old.String() || a.New.String() != b.New.String() {
			e.ViolateK("C14.handlers-differ", "content", "client %s: event %d differs between handlers: %+v vs %+v", mc.spec.Name, k, a, b)
			return
		}
	}
	st := fold(mc.events, "A")
	if st == nil {
		return
	}
	e.Probes["c14_events_folded"] += len(mc.events)
	if d := DiffStates(cacheNow, st, e.Sch.TableNames, nil); d != "" {
		e.ViolateK("C14.replay-mismatch", "", "client %s after transaction %d: folding the %d delivered events does not reproduce the cache (cache vs folded events):\n%s", mc.spec.Name, i, len(mc.events), d)
	}
}

// ---- C13 isolation ---------------------------------------------------------------

func (s *s3) checkC13(i int, mc *mirrorClient, db DBState, before DBState) {
	e := s.e
	tc := mc.ci.C.Cache()
	ctx := context.Background()
	paths := 0
	ok, why := e.Sim.Try(func() {
		for _, tn := range SortedKeys(mc.tables) {
			rc := tc.Table(tn)
			rows := rc.Rows()
			for _, u := range SortedKeys(rows) {
				scribble(rows[u]) // Rows()
				paths++
				if m := rc.Row(u); m != nil { // Row()
					scribble(m)
					paths++
				}
				probe := reflect.New(e.Types[tn]).Interface()
				reflect.ValueOf(probe).Elem().FieldByName("UUID").SetString(u)
				if _, m, err := rc.RowByModel(probe); err == nil && m != nil { // RowByModel()
					scribble(m)
					paths++
				}
				if ms, err := rc.RowsByModels([]model.Model{probe}); err == nil {
					for _, m := range ms {
						scribble(m)
						paths++
					}
				}
				if ms, err := rc.RowsByCondition([]ovsdb.Condition{ovsdb.NewCondition("_uuid", ovsdb.ConditionEqual, ovsdb.UUID{GoUUID: u})}); err == nil {
					for _, m := range ms {
						scribble(m)
						paths++
					}
				}
				// client Get copies into the caller's model
				g := reflect.New(e.Types[tn]).Interface()
				reflect.ValueOf(g).Elem().FieldByName("UUID").SetString(u)
				if err := mc.ci.C.Get(ctx, g); err == nil {
					scribble(g)
					paths++
				}
			}
			// client List
			lst := reflect.New(reflect.SliceOf(reflect.PointerTo(e.Types[tn])))
			if err := mc.ci.C.List(ctx, lst.Interface()); err == nil {
				for k := 0; k < lst.Elem().Len(); k++ {
					scribble(lst.Elem().Index(k).Interface())
					paths++
				}
			}
			// predicate (WhereCache) path is typed: skipped for run-time built models
		}
	})
	if !ok {
		e.Logf("C13: cache busy: %s", why)
		return
	}
	e.Probes["c13_models_scribbled"] += paths
	var after DBState
	e.Sim.Try(func() { after, _ = s.cacheState(mc) })
	if after == nil {
		return
	}
	if d := DiffStates(before, after, e.Sch.TableNames, nil); d != "" {
		e.ViolateK("C13.cache-changed", "", "client %s after transaction %d: modifying models returned by the cache changed what the cache returns next (before vs after scribbling):\n%s", mc.spec.Name, i, d)
		return
	}
	// and the cache still mirrors the database on monitored columns (a scribble that leaked would show here too)
	if d := DiffStates(db, after, SortedKeys(mc.tables), mc.tables); d != "" {
		e.Probes["c13_cache_differs_from_db"]++ // C01's concern; recorded, not alarmed
	}
}

func sortedRowKeys(td TableData) []string {
	ks := make([]string, 0, len(td))
	for k := range td {
		ks = append(ks, k)
	}
	sort.Strings(ks)
	return ks
}
