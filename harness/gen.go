package harness

import (
	"fmt"
	"sort"

	"github.com/ovn-org/libovsdb/simrt"
)

// Workload generation. A transaction is generated at issue time as a pure
// function of (its own generator seed, the schema, the last committed database
// state): the replay file lists (actor, seed, profile) per transaction, and
// determinism of the run makes the concrete operations reproducible. Dropping
// a transaction while shrinking leaves the others meaningful.

type Profile struct {
	Name        string
	MaxOps      int
	WInsert     int
	WUpdate     int
	WMutate     int
	WDelete     int
	WSelect     int
	WWait       int
	FailPermil  int  // plant a failing operation
	BadCommit   int  // permil: plant a commit-time violation
	Named       int  // permil: inserts use uuid-name and later ops refer to it
	ExplicitID  int  // permil: inserts carry an explicit uuid
	SameRow     int  // permil: next op targets a row already touched in this txn
	Compose     int  // permil: insert a non-root row together with a reference to it
	MaxRows     int  // delete pressure above this many rows in a table
	BigArith    bool // arithmetic mutations whose result does not fit
	IndexPlay   int  // permil: the transaction is one of the index patterns (swap, hand-over, delete+reinsert, duplicates)
	DupName     int  // permil: two inserts claim the same uuid-name
	GCChain     int  // permil: the transaction sets up, or triggers, a chain of garbage collections with weak references to every link
	SimpleWhere bool // where clauses restricted to _uuid ==, "all rows" and scalar equality (keeps condition-evaluation defects out of other properties' checks)
}

var ProfMixed = Profile{Name: "mixed", MaxOps: 6, WInsert: 30, WUpdate: 20, WMutate: 25, WDelete: 10, WSelect: 8, WWait: 4, FailPermil: 60, BadCommit: 60, Named: 400, ExplicitID: 500, SameRow: 300, Compose: 600, MaxRows: 7}
var ProfValid = Profile{Name: "valid", MaxOps: 6, WInsert: 30, WUpdate: 20, WMutate: 25, WDelete: 10, WSelect: 10, WWait: 5, FailPermil: 0, BadCommit: 0, Named: 400, ExplicitID: 500, SameRow: 300, Compose: 600, MaxRows: 7}
var ProfFail = Profile{Name: "fail", MaxOps: 6, WInsert: 30, WUpdate: 20, WMutate: 25, WDelete: 10, WSelect: 5, WWait: 2, FailPermil: 450, BadCommit: 350, Named: 300, ExplicitID: 1000, SameRow: 300, Compose: 500, MaxRows: 7}
var ProfSameRow = Profile{Name: "samerow", MaxOps: 7, WInsert: 15, WUpdate: 30, WMutate: 35, WDelete: 12, WSelect: 3, WWait: 0, FailPermil: 0, BadCommit: 0, Named: 200, ExplicitID: 600, SameRow: 850, Compose: 500, MaxRows: 6}
var ProfNamed = Profile{Name: "named", MaxOps: 7, WInsert: 45, WUpdate: 20, WMutate: 25, WDelete: 5, WSelect: 5, WWait: 0, FailPermil: 0, BadCommit: 30, Named: 900, ExplicitID: 400, SameRow: 300, Compose: 800, MaxRows: 7, DupName: 60}
var ProfRefs = Profile{Name: "refs", MaxOps: 6, WInsert: 35, WUpdate: 20, WMutate: 25, WDelete: 18, WSelect: 2, WWait: 0, FailPermil: 0, BadCommit: 100, Named: 600, ExplicitID: 500, SameRow: 400, Compose: 850, MaxRows: 6, GCChain: 150}

var ProfIndex = Profile{Name: "index", MaxOps: 4, WInsert: 35, WUpdate: 30, WMutate: 10, WDelete: 20, WSelect: 5, WWait: 0, FailPermil: 0, BadCommit: 0, Named: 200, ExplicitID: 700, SameRow: 300, Compose: 700, MaxRows: 6, IndexPlay: 650}

func init() {
	// exotic conditions are exercised by C03's profiles only
	for _, p := range []*Profile{&ProfFail, &ProfSameRow, &ProfNamed, &ProfRefs, &ProfIndex} {
		p.SimpleWhere = true
	}
}

// ProfValidSW / ProfMixedSW: valid/mixed with simple where clauses.
func ProfileByName(n string) Profile {
	switch n {
	case "valid-sw":
		p := ProfValid
		p.Name, p.SimpleWhere = n, true
		return p
	case "mixed-sw":
		p := ProfMixed
		p.Name, p.SimpleWhere = n, true
		return p
	}
	for _, p := range []Profile{ProfMixed, ProfValid, ProfFail, ProfSameRow, ProfNamed, ProfRefs, ProfIndex} {
		if p.Name == n {
			return p
		}
	}
	return ProfMixed
}

type Op = map[string]any

type TxnMeta struct {
	Planted   string // "", "op:<kind>@<pos>", "commit:<kind>"
	NamedDecl map[string]string
	// Culprits: positions of the operations planted to make the transaction fail
	Culprits []int
}

type touched struct {
	table string
	uuid  string // concrete uuid or "@name"
}

type Gen struct {
	sch   *Schema
	rng   *simrt.Rand
	st    DBState
	prof  Profile
	named map[string][]string // table -> names declared so far in this txn
	decl  map[string]string   // name -> table
	touch []touched
	nameN int
	tag   string
	// companions: valid operations that go with the planted commit-time violation
	companions []Op
	// Exclude hides rows from the generator (it never targets or refers to them).
	Exclude func(table, uuid string) bool
	// UUIDWhereOnly restricts where clauses to "_uuid == x" of a visible row.
	UUIDWhereOnly bool
}

func NewGen(sch *Schema, seed uint64, st DBState, prof Profile, tag string) *Gen {
	return &Gen{sch: sch, rng: simrt.NewRand(seed), st: st, prof: prof, named: map[string][]string{}, decl: map[string]string{}, tag: tag}
}

func (g *Gen) pick(n int) int         { return g.rng.Intn(n) }
func (g *Gen) chance(permil int) bool { return g.rng.Intn(1000) < permil }

func (g *Gen) uuidFor(label string) string {
	a, b := g.rng.Uint64(), g.rng.Uint64()
	return fmt.Sprintf("%08x-%04x-4%03x-a%03x-%012x", uint32(a), uint16(a>>32), uint16(a>>48)&0xfff, uint16(b)&0xfff, b>>16)
}

func (g *Gen) rowsOf(table string) []string {
	us := make([]string, 0, len(g.st[table]))
	for u := range g.st[table] {
		if g.Exclude != nil && g.Exclude(table, u) {
			continue
		}
		us = append(us, u)
	}
	sort.Strings(us)
	return us
}

func (g *Gen) table() *Table {
	// weight root tables and small tables a bit more
	return g.sch.Tables[g.sch.TableNames[g.pick(len(g.sch.TableNames))]]
}

// ---- values --------------------------------------------------------------------

var strPool = []string{"s0", "s1", "s2", "s3", "s4", "", "x y", "Ünï"}
var keyPool = []string{"k0", "k1", "k2", "k3"}
var realPool = []float64{0, 0.5, 1.5, -2.25, 3, 1e6}

func (g *Gen) atom(b *BaseType, col string) (Atom, bool) {
	if len(b.Enum) > 0 {
		return b.Enum[g.pick(len(b.Enum))], true
	}
	switch b.Type {
	case "integer":
		if g.chance(50) {
			return AInt(int64(g.pick(2000000)) - 1000000), true
		}
		return AInt(int64(g.pick(6))), true
	case "real":
		return AReal(realPool[g.pick(len(realPool))]), true
	case "boolean":
		return ABool(g.pick(2) == 0), true
	case "string":
		if col == "sa" || col == "sb" {
			return AStr([]string{"", "a", "b", "ab", "ba", "aa"}[g.pick(6)]), true
		}
		if isIndexLike(col) {
			return AStr(fmt.Sprintf("n%d", g.pick(14))), true
		}
		return AStr(strPool[g.pick(len(strPool))]), true
	case "uuid":
		if b.RefTable == "" {
			return AUUID(fmt.Sprintf("00000000-0000-4000-8000-%012d", g.pick(4))), true
		}
		var cands []string
		cands = append(cands, g.rowsOf(b.RefTable)...)
		for _, n := range g.named[b.RefTable] {
			cands = append(cands, "@"+n)
		}
		if b.RefType == "weak" && g.prof.Name == "refs" && g.chance(40) {
			// valid input: the uuid of a row of ANOTHER table in a weak reference
			// column; it refers to no row of the right table and is pruned
			for _, tn := range g.sch.TableNames {
				if tn != b.RefTable {
					if us := g.rowsOf(tn); len(us) > 0 {
						return AUUID(us[g.pick(len(us))]), true
					}
				}
			}
		}
		if len(cands) == 0 {
			return Atom{}, false
		}
		return AUUID(cands[g.pick(len(cands))]), true
	}
	return Atom{}, false
}

func isIndexLike(col string) bool {
	switch col {
	case "name", "cname", "iname", "ib", "gname", "pname", "fname":
		return true
	}
	return false
}

func (g *Gen) keyAtom(b *BaseType, col string) (Atom, bool) {
	if b.Type == "string" && len(b.Enum) == 0 {
		return AStr(keyPool[g.pick(len(keyPool))]), true
	}
	return g.atom(b, col)
}

// value generates a value of the column's type; ok=false if impossible now
// (e.g. a required reference with no possible target).
func (g *Gen) value(c *Column) (Value, bool) {
	ct := &c.Type
	if ct.IsMap() {
		n := g.pick(4)
		v := Value{IsMap: true}
		for i := 0; i < n; i++ {
			k, ok1 := g.keyAtom(ct.Key, c.Name)
			x, ok2 := g.atom(ct.Val, c.Name)
			if ok1 && ok2 {
				v.Map = append(v.Map, Pair{k, x})
			}
		}
		v.norm()
		return v, true
	}
	lo, hi := ct.Min, ct.Max
	if hi < 0 || hi > 3 {
		hi = 3
	}
	if hi < lo {
		hi = lo
	}
	n := lo + g.pick(hi-lo+1)
	v := Value{}
	for i := 0; i < n*2 && len(v.Set) < n; i++ {
		a, ok := g.atom(ct.Key, c.Name)
		if !ok {
			break
		}
		if !v.Has(a) {
			v.Set = append(v.Set, a)
		}
	}
	v.norm()
	if len(v.Set) < ct.Min {
		return v, false
	}
	return v, true
}

// wire encodes a column value: scalars are always bare atoms (the only
// notation that is certainly valid for them), one-element sets vary.
func (g *Gen) wire(c *Column, v Value, barePermil int) any {
	if c.Type.IsScalar() {
		return ValueToWire(v, true)
	}
	return ValueToWire(v, g.chance(barePermil))
}

// ---- conditions ----------------------------------------------------------------

func (g *Gen) whereUUID(u string) []any {
	if len(u) > 0 && u[0] == '@' {
		return []any{[]any{"_uuid", "==", []any{"named-uuid", u[1:]}}}
	}
	return []any{[]any{"_uuid", "==", []any{"uuid", u}}}
}

var condFuncs = []string{"==", "!=", "includes", "excludes", "<", "<=", ">", ">="}

func (g *Gen) where(t *Table) []any {
	us := g.rowsOf(t.Name)
	if g.chance(g.prof.SameRow) {
		var mine []touched
		for _, x := range g.touch {
			if x.table == t.Name {
				mine = append(mine, x)
			}
		}
		if len(mine) > 0 {
			return g.whereUUID(mine[g.pick(len(mine))].uuid)
		}
	}
	if g.UUIDWhereOnly {
		if len(us) == 0 {
			return g.whereUUID("00000000-0000-4000-8000-00000000dead")
		}
		return g.whereUUID(us[g.pick(len(us))])
	}
	if g.prof.SimpleWhere {
		switch r := g.pick(100); {
		case r < 70 && len(us) > 0:
			return g.whereUUID(us[g.pick(len(us))])
		case r < 80 || len(us) == 0:
			return []any{}
		default:
			u := us[g.pick(len(us))]
			for try := 0; try < 6; try++ {
				c := t.Columns[t.ColNames[g.pick(len(t.ColNames))]]
				if c.Type.IsScalar() && c.Type.Key.Type != "real" {
					return []any{[]any{c.Name, "==", g.wire(c, g.st[t.Name][u][c.Name], 1000)}}
				}
			}
			return g.whereUUID(u)
		}
	}
	switch r := g.pick(100); {
	case r < 55 && len(us) > 0:
		return g.whereUUID(us[g.pick(len(us))])
	case r < 60:
		return []any{}
	case r < 80 && len(us) > 0:
		// by the value of some column of an existing row (index style)
		u := us[g.pick(len(us))]
		cn := t.ColNames[g.pick(len(t.ColNames))]
		v := g.st[t.Name][u][cn]
		return []any{[]any{cn, "==", g.wire(t.Columns[cn], v, 700)}}
	case r < 90 && len(us) > 0 && len(t.Indexes) > 0:
		// the index values of one row together with the uuid of that or another row
		a, b := us[g.pick(len(us))], us[g.pick(len(us))]
		var conds []any
		for _, cn := range t.Indexes[g.pick(len(t.Indexes))] {
			conds = append(conds, []any{cn, "==", g.wire(t.Columns[cn], g.st[t.Name][a][cn], 1000)})
		}
		if g.chance(700) {
			conds = append(conds, []any{"_uuid", "==", []any{"uuid", b}})
		}
		if g.chance(500) {
			conds[0], conds[len(conds)-1] = conds[len(conds)-1], conds[0]
		}
		return conds
	default:
		var conds []any
		for i := 0; i < 1+g.pick(2); i++ {
			c := t.Columns[t.ColNames[g.pick(len(t.ColNames))]]
			v, ok := g.value(c)
			if !ok {
				continue
			}
			fn := condFuncs[g.pick(4)]
			if c.Type.IsScalar() && (c.Type.Key.Type == "integer" || c.Type.Key.Type == "real") && len(c.Type.Key.Enum) == 0 {
				fn = condFuncs[g.pick(len(condFuncs))]
			}
			conds = append(conds, []any{c.Name, fn, g.wire(c, v, 700)})
		}
		if conds == nil {
			return []any{}
		}
		return conds
	}
}

// ---- operations ----------------------------------------------------------------

func (g *Gen) rowFor(t *Table, full bool) (map[string]any, bool) {
	row := map[string]any{}
	for _, cn := range t.ColNames {
		c := t.Columns[cn]
		need := c.Type.Min > 0 && c.Type.Key.RefTable != "" // required reference
		needMin := !c.Type.IsMap() && c.Type.Min > 0 && !c.Type.IsScalar()
		if !full && !need && !needMin && !isIndexLike(cn) && cn != "ia" && cn != "sa" && cn != "sb" && !g.chance(450) {
			continue
		}
		v, ok := g.value(c)
		if !ok {
			if need || needMin {
				return nil, false
			}
			continue
		}
		row[cn] = g.wire(c, v, 800)
	}
	return row, true
}

func (g *Gen) opInsert(t *Table) []Op {
	row, ok := g.rowFor(t, false)
	if !ok {
		return nil
	}
	op := Op{"op": "insert", "table": t.Name, "row": row}
	id := ""
	if g.chance(g.prof.ExplicitID) {
		id = g.uuidFor(t.Name)
		op["uuid"] = id
	}
	name := ""
	if g.chance(g.prof.Named) || (!g.sch.IsRoot(t.Name) && id == "") {
		g.nameN++
		name = fmt.Sprintf("%s_%s%d", g.tag, t.Name, g.nameN)
		op["uuid-name"] = name
		g.named[t.Name] = append(g.named[t.Name], name)
		g.decl[name] = t.Name
		g.touch = append(g.touch, touched{t.Name, "@" + name})
	} else if id != "" {
		g.touch = append(g.touch, touched{t.Name, id})
	}
	ops := []Op{op}
	if name != "" && g.prof.Name == "named" && g.chance(250) {
		// the name as a map key that is added and taken away again by key
		if extra := g.opKeyInAndOut(t.Name, "@"+name); extra != nil {
			ops = append(ops, extra...)
		}
	}
	// a non-root row needs a strong reference to survive: add one
	if !g.sch.IsRoot(t.Name) && g.chance(g.prof.Compose) {
		target := id
		if name != "" {
			target = "@" + name
		}
		if target != "" {
			if ref := g.opReferTo(t.Name, target); ref != nil {
				if g.chance(300) {
					ops = []Op{ref, op} // forward reference: use before the declaring insert
				} else {
					ops = append(ops, ref)
				}
			}
		}
	}
	return ops
}

// opReferTo builds a mutate that adds a strong reference to (table,target)
// from some existing or just-declared row.
func (g *Gen) opReferTo(table, target string) Op {
	type site struct {
		t *Table
		c *Column
	}
	var sites []site
	for _, tn := range g.sch.TableNames {
		t := g.sch.Tables[tn]
		for _, cn := range t.ColNames {
			c := t.Columns[cn]
			for _, b := range []*BaseType{c.Type.Key, c.Type.Val} {
				if b != nil && b.RefTable == table && b.RefType != "weak" && !c.Type.IsScalar() && !c.Type.IsOptional() {
					sites = append(sites, site{t, c})
				}
			}
		}
	}
	if len(sites) == 0 {
		return nil
	}
	s := sites[g.pick(len(sites))]
	var from []string
	from = append(from, g.rowsOf(s.t.Name)...)
	for _, n := range g.named[s.t.Name] {
		from = append(from, "@"+n)
	}
	if len(from) == 0 {
		return nil
	}
	f := from[g.pick(len(from))]
	var val Value
	ta := AUUID(target)
	if s.c.Type.IsMap() {
		if s.c.Type.Key.RefTable == table && s.c.Type.Key.RefType != "weak" {
			x, _ := g.atom(s.c.Type.Val, s.c.Name)
			val = MapOf(Pair{ta, x})
		} else {
			k, _ := g.keyAtom(s.c.Type.Key, s.c.Name)
			val = MapOf(Pair{k, ta})
		}
	} else {
		val = SetOf(ta)
	}
	g.touch = append(g.touch, touched{s.t.Name, f})
	return Op{"op": "mutate", "table": s.t.Name, "where": g.whereUUID(f), "mutations": []any{[]any{s.c.Name, "insert", ValueToWire(val, g.chance(500))}}}
}

// opKeyInAndOut uses target (a row of table) as key of a uuid-keyed map of some
// existing row and removes that key again with the key-set form of "delete".
func (g *Gen) opKeyInAndOut(table, target string) []Op {
	for _, tn := range g.sch.TableNames {
		t := g.sch.Tables[tn]
		for _, cn := range t.ColNames {
			c := t.Columns[cn]
			if !c.Type.IsMap() || c.Type.Key.RefTable != table || c.Immutable {
				continue
			}
			from := g.rowsOf(tn)
			if len(from) == 0 {
				continue
			}
			f := from[g.pick(len(from))]
			x, ok := g.atom(c.Type.Val, cn)
			if !ok {
				continue
			}
			ta := AUUID(target)
			g.touch = append(g.touch, touched{tn, f})
			ins := Op{"op": "mutate", "table": tn, "where": g.whereUUID(f), "mutations": []any{[]any{cn, "insert", ValueToWire(MapOf(Pair{ta, x}), false)}}}
			del := Op{"op": "mutate", "table": tn, "where": g.whereUUID(f), "mutations": []any{[]any{cn, "delete", ValueToWire(SetOf(ta), g.chance(500))}}}
			if g.chance(300) {
				return []Op{ins} // stays
			}
			return []Op{ins, del}
		}
	}
	return nil
}

func (g *Gen) opUpdate(t *Table) []Op {
	row := map[string]any{}
	n := 1 + g.pick(3)
	// a client that writes a row back with one field changed: some columns
	// carry exactly the value the addressed row holds already
	where := g.where(t)
	target := ""
	if len(where) == 1 {
		if c, ok := where[0].([]any); ok && len(c) == 3 && c[0] == "_uuid" {
			if u, ok := c[2].([]any); ok && len(u) == 2 && u[0] == "uuid" {
				target, _ = u[1].(string)
			}
		}
	}
	if target != "" && g.st[t.Name][target] != nil && g.chance(400) {
		n += 1 + g.pick(2)
	} else {
		target = ""
	}
	for i := 0; i < n; i++ {
		c := t.Columns[t.ColNames[g.pick(len(t.ColNames))]]
		if c.Immutable {
			continue
		}
		if target != "" && i > 0 {
			if cur, ok := g.st[t.Name][target][c.Name]; ok {
				row[c.Name] = g.wire(c, cur, 800)
				continue
			}
		}
		v, ok := g.value(c)
		if !ok {
			continue
		}
		row[c.Name] = g.wire(c, v, 800)
	}
	if len(row) == 0 {
		return nil
	}
	return []Op{{"op": "update", "table": t.Name, "where": where, "row": row}}
}

func (g *Gen) mutation(c *Column) []any {
	ct := &c.Type
	if c.Immutable {
		return nil
	}
	if g.prof.SimpleWhere && ct.IsOptional() {
		return nil // mutators on optional columns are C03's business
	}
	if ct.IsMap() {
		if g.chance(500) {
			v, _ := g.value(c)
			return []any{c.Name, "insert", ValueToWire(v, false)}
		}
		if g.chance(500) {
			// delete by key set
			ks := Value{}
			for i := 0; i < 1+g.pick(2); i++ {
				k, ok := g.keyAtom(ct.Key, c.Name)
				if ok && !ks.Has(k) {
					ks.Set = append(ks.Set, k)
				}
			}
			ks.norm()
			return []any{c.Name, "delete", ValueToWire(ks, false)}
		}
		v, _ := g.value(c)
		return []any{c.Name, "delete", ValueToWire(v, false)}
	}
	numeric := (ct.Key.Type == "integer" || ct.Key.Type == "real") && len(ct.Key.Enum) == 0
	if numeric && (ct.IsScalar() || (g.chance(300) && !g.prof.SimpleWhere)) {
		ops := []string{"+=", "-=", "*=", "/="}
		if ct.Key.Type == "integer" {
			ops = append(ops, "%=")
		}
		m := ops[g.pick(len(ops))]
		var arg any
		if ct.Key.Type == "integer" {
			a := int64(1 + g.pick(4))
			if m == "+=" || m == "-=" {
				a = int64(g.pick(5))
			}
			arg = a
		} else {
			arg = []float64{0.5, 1, 2, 4}[g.pick(4)]
		}
		if !ct.IsScalar() && (m == "*=" || m == "/=" || m == "%=") {
			// avoid creating duplicate elements in a set
			m = "+="
		}
		if g.prof.BigArith && ct.IsScalar() && g.chance(60) {
			// results that do not fit: RFC 7047 prescribes a "range error"
			if ct.Key.Type == "integer" {
				return []any{c.Name, "*=", int64(1) << 62}
			}
			return []any{c.Name, "*=", 1e308}
		}
		return []any{c.Name, m, arg}
	}
	if ct.IsScalar() {
		return nil
	}
	v, ok := g.value(c)
	if !ok || len(v.Set) == 0 {
		a, ok := g.atom(ct.Key, c.Name)
		if !ok {
			return nil
		}
		v = SetOf(a)
	}
	m := "insert"
	if g.chance(450) {
		m = "delete"
	}
	return []any{c.Name, m, ValueToWire(v, g.chance(500))}
}

func (g *Gen) opMutate(t *Table) []Op {
	var muts []any
	used := map[string]bool{}
	var usedList []string
	for i := 0; i < 1+g.pick(3); i++ {
		c := t.Columns[t.ColNames[g.pick(len(t.ColNames))]]
		if g.prof.Name == "samerow" && len(usedList) > 0 && g.chance(400) {
			// another mutation of a column this operation has already mutated
			// (effective after ineffective, cancelling, repeated)
			c = t.Columns[usedList[g.pick(len(usedList))]]
		}
		if m := g.mutation(c); m != nil {
			muts = append(muts, m)
			if !used[c.Name] {
				usedList = append(usedList, c.Name)
			}
			used[c.Name] = true
		}
	}
	if g.prof.BigArith && g.chance(50) {
		// additions and subtractions that leave the 64-bit integers whatever the
		// column holds: three steps of 2^62 in one direction ("range error")
		for _, cn := range t.ColNames {
			c := t.Columns[cn]
			if c.Type.IsScalar() && c.Type.Key.Type == "integer" && len(c.Type.Key.Enum) == 0 && !c.Immutable && g.chance(500) {
				m := []string{"+=", "-="}[g.pick(2)]
				step := int64(1) << 62
				if g.chance(500) {
					step = -step
				}
				for k := 0; k < 3; k++ {
					muts = append(muts, []any{cn, m, step})
				}
				break
			}
		}
	}
	if muts == nil {
		return nil
	}
	return []Op{{"op": "mutate", "table": t.Name, "where": g.where(t), "mutations": muts}}
}

func (g *Gen) opDelete(t *Table) []Op {
	return []Op{{"op": "delete", "table": t.Name, "where": g.where(t)}}
}

func (g *Gen) columnsSubset(t *Table) []string {
	var cols []string
	for _, cn := range t.ColNames {
		if g.chance(350) {
			cols = append(cols, cn)
		}
	}
	if g.chance(300) {
		cols = append(cols, "_uuid")
	}
	return cols
}

func (g *Gen) opSelect(t *Table) []Op {
	op := Op{"op": "select", "table": t.Name, "where": g.where(t)}
	if g.chance(600) {
		if cols := g.columnsSubset(t); len(cols) > 0 {
			op["columns"] = cols
		}
	}
	return []Op{op}
}

func (g *Gen) opWait(t *Table) []Op {
	// compare the projection of the selected rows on a few columns with rows
	// taken from the current state (sometimes perturbed)
	us := g.rowsOf(t.Name)
	var cols []string
	for _, cn := range t.ColNames {
		if g.chance(200) {
			cols = append(cols, cn)
		}
	}
	if len(cols) == 0 {
		cols = []string{t.ColNames[g.pick(len(t.ColNames))]}
	}
	where := []any{}
	var rows []any
	if len(us) > 0 && g.chance(700) {
		u := us[g.pick(len(us))]
		where = g.whereUUID(u)
		r := g.st[t.Name][u].Project(cols)
		if g.chance(300) {
			c := t.Columns[cols[0]]
			if v, ok := g.value(c); ok {
				r[c.Name] = v
			}
		}
		rows = append(rows, RowToWire(r))
	} else {
		for _, u := range us {
			rows = append(rows, RowToWire(g.st[t.Name][u].Project(cols)))
		}
	}
	if rows == nil {
		rows = []any{}
	}
	until := "=="
	if g.chance(400) {
		until = "!="
	}
	return []Op{{"op": "wait", "table": t.Name, "timeout": 0, "where": where, "columns": cols, "until": until, "rows": rows}}
}

// ---- failing operations (C02) ----------------------------------------------------

func (g *Gen) failingOp() (Op, string) {
	t := g.table()
	switch g.pick(12) {
	case 11:
		// a named uuid that no insert of this transaction declares
		for _, cn := range t.ColNames {
			c := t.Columns[cn]
			if !c.Type.IsMap() && c.Type.Key.Type == "uuid" && c.Type.Min == 0 && !c.Immutable {
				return Op{"op": "insert", "table": t.Name, "row": map[string]any{cn: []any{"named-uuid", "nobody_declares_" + g.tag}}}, "undeclared-name"
			}
		}
	case 0:
		return Op{"op": "insert", "table": "NoSuchTable", "row": map[string]any{}}, "unknown-table"
	case 1:
		return Op{"op": "insert", "table": t.Name, "row": map[string]any{"no_such_column": 1}}, "unknown-column"
	case 2:
		// wrong value type
		for _, cn := range t.ColNames {
			c := t.Columns[cn]
			if c.Type.IsScalar() && c.Type.Key.Type == "integer" {
				return Op{"op": "update", "table": t.Name, "where": []any{}, "row": map[string]any{cn: "not-an-int"}}, "wrong-type"
			}
		}
	case 3:
		// immutable column changed
		for _, cn := range t.ColNames {
			if t.Columns[cn].Immutable && len(g.st[t.Name]) > 0 {
				return Op{"op": "update", "table": t.Name, "where": []any{}, "row": map[string]any{cn: "changed-" + g.uuidFor("x")}}, "immutable"
			}
		}
	case 4:
		for _, cn := range t.ColNames {
			c := t.Columns[cn]
			if len(c.Type.Key.Enum) > 0 && c.Type.IsScalar() {
				return Op{"op": "insert", "table": t.Name, "row": map[string]any{cn: "not-in-enum"}}, "enum"
			}
		}
	case 5:
		return Op{"op": "mutate", "table": t.Name, "where": []any{}, "mutations": []any{[]any{"no_such_column", "+=", 1}}}, "unknown-column-mutate"
	case 6:
		for _, cn := range t.ColNames {
			c := t.Columns[cn]
			if c.Type.IsScalar() && c.Type.Key.Type == "string" && !c.Immutable {
				return Op{"op": "mutate", "table": t.Name, "where": []any{}, "mutations": []any{[]any{cn, "+=", 1}}}, "bad-mutator"
			}
		}
	case 7:
		return Op{"op": "select", "table": t.Name, "where": []any{[]any{"no_such_column", "==", 1}}}, "unknown-column-where"
	case 8:
		return Op{"op": "wait", "table": t.Name, "timeout": 0, "where": []any{}, "columns": []string{t.ColNames[0]}, "until": "==", "rows": []any{map[string]any{t.ColNames[0]: ValueToWire(SetOf(), false)}, map[string]any{}, map[string]any{}}}, "wait-timeout"
	case 9:
		return Op{"op": "delete", "table": "NoSuchTable", "where": []any{}}, "unknown-table-delete"
	case 10:
		// too many elements in a bounded set
		for _, cn := range t.ColNames {
			c := t.Columns[cn]
			if !c.Type.IsMap() && c.Type.Max > 1 && c.Type.Key.Type == "real" {
				els := []any{}
				for i := 0; i < c.Type.Max+2; i++ {
					els = append(els, float64(i)+0.25)
				}
				return Op{"op": "insert", "table": t.Name, "row": map[string]any{cn: []any{"set", els}}}, "set-too-big"
			}
		}
	}
	return Op{"op": "insert", "table": "NoSuchTable", "row": map[string]any{}}, "unknown-table"
}

// commitViolation returns operations that are individually fine but whose
// combined final state violates a commit-time rule.
func (g *Gen) commitViolation() ([]Op, string) {
	switch g.pick(4) {
	case 0:
		// dangling strong reference
		for _, tn := range g.sch.TableNames {
			t := g.sch.Tables[tn]
			if !g.sch.IsRoot(tn) {
				continue
			}
			for _, cn := range t.ColNames {
				c := t.Columns[cn]
				if !c.Type.IsMap() && c.Type.Key.RefTable != "" && c.Type.Key.RefType != "weak" && c.Type.Min == 0 {
					row, ok := g.rowFor(t, false)
					if !ok {
						continue
					}
					row[cn] = []any{"uuid", g.uuidFor("dangling")}
					return []Op{{"op": "insert", "table": tn, "row": row, "uuid": g.uuidFor(tn)}}, "dangling-strong"
				}
			}
		}
	case 1:
		// duplicate index value: copy the indexed columns of an existing row
		for _, tn := range g.sch.TableNames {
			t := g.sch.Tables[tn]
			us := g.rowsOf(tn)
			if len(t.Indexes) == 0 || len(us) == 0 || !g.sch.IsRoot(tn) {
				continue
			}
			src := g.st[tn][us[g.pick(len(us))]]
			row, ok := g.rowFor(t, false)
			if !ok {
				continue
			}
			idx := t.Indexes[g.pick(len(t.Indexes))]
			for _, cn := range idx {
				row[cn] = ValueToWire(src[cn], true)
			}
			if g.chance(500) {
				// valid inserts into the same table travel with the culprit: the
				// transaction has several rows of that table when it is rejected, and
				// so has its re-submission without the culprit
				for k := 0; k < 2; k++ {
					if r, ok := g.rowFor(t, false); ok {
						g.companions = append(g.companions, Op{"op": "insert", "table": tn, "row": r, "uuid": g.uuidFor(tn)})
					}
				}
			}
			return []Op{{"op": "insert", "table": tn, "row": row, "uuid": g.uuidFor(tn)}}, "dup-index"
		}
	case 2:
		// empty a min-1 weak set by deleting every row it refers to
		for _, tn := range g.sch.TableNames {
			t := g.sch.Tables[tn]
			for _, cn := range t.ColNames {
				c := t.Columns[cn]
				if c.Type.IsMap() || c.Type.Min < 1 || c.Type.Key.RefType != "weak" {
					continue
				}
				for _, u := range g.rowsOf(tn) {
					v := g.st[tn][u][cn]
					var ops []Op
					for _, a := range v.Set {
						ops = append(ops, Op{"op": "delete", "table": c.Type.Key.RefTable, "where": g.whereUUID(a.S)})
					}
					if len(ops) > 0 {
						return ops, "weak-min"
					}
				}
			}
		}
	case 3:
		// delete a row that is still strongly referenced
		for _, tn := range g.sch.TableNames {
			t := g.sch.Tables[tn]
			for _, cn := range t.ColNames {
				c := t.Columns[cn]
				for _, b := range []*BaseType{c.Type.Key, c.Type.Val} {
					if b == nil || b.RefTable == "" || b.RefType == "weak" {
						continue
					}
					for _, u := range g.rowsOf(tn) {
						v := g.st[tn][u][cn]
						var targets []Atom
						for _, a := range v.Set {
							targets = append(targets, a)
						}
						for _, p := range v.Map {
							if b == c.Type.Key {
								targets = append(targets, p.K)
							} else {
								targets = append(targets, p.V)
							}
						}
						if len(targets) > 0 {
							return []Op{{"op": "delete", "table": b.RefTable, "where": g.whereUUID(targets[0].S)}}, "delete-referenced"
						}
					}
				}
			}
		}
	}
	return nil, ""
}

// Txn generates one transaction.
func (g *Gen) Txn() ([]Op, TxnMeta) {
	var ops []Op
	meta := TxnMeta{}
	n := 1 + g.pick(g.prof.MaxOps)
	total := g.prof.WInsert + g.prof.WUpdate + g.prof.WMutate + g.prof.WDelete + g.prof.WSelect + g.prof.WWait
	for len(ops) < n {
		t := g.table()
		r := g.pick(total)
		var add []Op
		over := len(g.st[t.Name]) > g.prof.MaxRows
		switch {
		case over && g.chance(500):
			add = g.opDelete(t)
		case r < g.prof.WInsert:
			add = g.opInsert(t)
		case r < g.prof.WInsert+g.prof.WUpdate:
			add = g.opUpdate(t)
		case r < g.prof.WInsert+g.prof.WUpdate+g.prof.WMutate:
			add = g.opMutate(t)
		case r < g.prof.WInsert+g.prof.WUpdate+g.prof.WMutate+g.prof.WDelete:
			add = g.opDelete(t)
		case r < g.prof.WInsert+g.prof.WUpdate+g.prof.WMutate+g.prof.WDelete+g.prof.WSelect:
			add = g.opSelect(t)
		default:
			add = g.opWait(t)
		}
		if add == nil {
			n-- // could not build this one; shrink the target to guarantee termination
			if n <= 0 && len(ops) == 0 {
				ops = append(ops, g.opSelect(t)...)
			}
			continue
		}
		ops = append(ops, add...)
	}
	if g.chance(g.prof.GCChain) {
		saveNamed, saveDecl := g.named, g.decl
		g.named, g.decl = map[string][]string{}, map[string]string{}
		if play, kind := g.gcChain(); play != nil {
			meta.Planted = "gc-chain:" + kind
			meta.NamedDecl = g.decl
			return play, meta
		}
		g.named, g.decl = saveNamed, saveDecl
	}
	if g.chance(g.prof.IndexPlay) {
		// the operations built so far are dropped: so are the names they declared
		saveNamed, saveDecl := g.named, g.decl
		g.named, g.decl = map[string][]string{}, map[string]string{}
		play, kind := g.indexPlay()
		if play == nil {
			g.named, g.decl = saveNamed, saveDecl
		}
		if play != nil {
			meta.Planted = "index:" + kind
			meta.NamedDecl = g.decl
			return play, meta
		}
	}
	if g.chance(g.prof.DupName) {
		// two inserts claiming the same name with different explicit uuids
		t := g.table()
		if g.sch.IsRoot(t.Name) {
			r1, ok1 := g.rowFor(t, false)
			r2, ok2 := g.rowFor(t, false)
			if ok1 && ok2 {
				nm := g.tag + "_dup"
				ops = append(ops, Op{"op": "insert", "table": t.Name, "row": r1, "uuid": g.uuidFor("a"), "uuid-name": nm}, Op{"op": "insert", "table": t.Name, "row": r2, "uuid": g.uuidFor("b"), "uuid-name": nm})
				meta.Planted = "dup-name"
			}
		}
	}
	if g.chance(g.prof.BadCommit) {
		if bad, kind := g.commitViolation(); bad != nil {
			pos := g.pick(len(ops) + 1)
			ops = append(ops[:pos:pos], append(bad, ops[pos:]...)...)
			for k := range bad {
				meta.Culprits = append(meta.Culprits, pos+k)
			}
			meta.Planted = "commit:" + kind
			ops = append(ops, g.companions...)
			g.companions = nil
		}
	} else if g.chance(g.prof.FailPermil) {
		bad, kind := g.failingOp()
		pos := g.pick(len(ops) + 1)
		ops = append(ops[:pos:pos], append([]Op{bad}, ops[pos:]...)...)
		meta.Culprits = []int{pos}
		meta.Planted = fmt.Sprintf("op:%s@%d", kind, pos)
	}
	meta.NamedDecl = g.decl
	return ops, meta
}

// gcChain builds the two halves of a chained garbage collection that meets weak
// references on every link. Set-up (when the state holds no such structure): a
// row of a root table holds the only reference to a row a of a non-root table,
// a holds the only reference to a row b of the same table, and a row of another
// root table refers weakly to a and b (and, half of the time, to a third row
// that stays, so that the weak set keeps its minimum). Trigger (when it does):
// the root row lets go of a. a is collected, then b, and the weak references to
// both have to go, or the transaction has to be rejected over the minimum.
func (g *Gen) gcChain() ([]Op, string) {
	sch := g.sch
	strongTo := func(t *Table, to string, wantSelf bool) string {
		for _, cn := range t.ColNames {
			c := t.Columns[cn]
			if !c.Type.IsMap() && c.Type.Key.RefTable == to && c.Type.Key.RefType != "weak" && c.Type.Min == 0 {
				return cn
			}
		}
		return ""
	}
	for _, tn := range sch.TableNames {
		t := sch.Tables[tn]
		if sch.IsRoot(tn) {
			continue
		}
		self := strongTo(t, tn, true)
		if self == "" {
			continue
		}
		var rt, wt *Table
		var rc, wc string
		for _, on := range sch.TableNames {
			o := sch.Tables[on]
			if !sch.IsRoot(on) {
				continue
			}
			if rt == nil {
				if cn := strongTo(o, tn, false); cn != "" {
					rt, rc = o, cn
				}
			}
			if wt == nil {
				for _, cn := range o.ColNames {
					c := o.Columns[cn]
					if !c.Type.IsMap() && c.Type.Key.RefTable == tn && c.Type.Key.RefType == "weak" && c.Type.Max != 1 {
						wt, wc = o, cn
					}
				}
			}
		}
		if rt == nil || wt == nil {
			continue
		}
		// strong references to a row of t, as (table, row, column) sites
		sites := func(u string) int {
			n := 0
			for _, on := range sch.TableNames {
				for _, cn := range sch.Tables[on].ColNames {
					c := sch.Tables[on].Columns[cn]
					for _, b := range []*BaseType{c.Type.Key, c.Type.Val} {
						if b == nil || b.RefTable != tn || b.RefType == "weak" {
							continue
						}
						for _, row := range g.st[on] {
							v := row[cn]
							for _, a := range v.Set {
								if a.S == u {
									n++
								}
							}
							for _, p := range v.Map {
								if (b == c.Type.Key && p.K.S == u) || (b == c.Type.Val && p.V.S == u) {
									n++
								}
							}
						}
					}
				}
			}
			return n
		}
		// trigger: is the structure there?
		for _, ru := range g.rowsOf(rt.Name) {
			held := g.st[rt.Name][ru][rc]
			if len(held.Set) != 1 {
				continue
			}
			a := held.Set[0].S
			arow, ok := g.st[tn][a]
			if !ok || len(arow[self].Set) != 1 || sites(a) != 1 {
				continue
			}
			b := arow[self].Set[0].S
			if _, ok := g.st[tn][b]; !ok || b == a || sites(b) != 1 {
				continue
			}
			for _, wu := range g.rowsOf(wt.Name) {
				w := g.st[wt.Name][wu][wc]
				if w.Has(AUUID(a)) && w.Has(AUUID(b)) {
					if g.chance(300) && sch.IsRoot(rt.Name) {
						return []Op{{"op": "delete", "table": rt.Name, "where": g.whereUUID(ru)}}, "trigger-delete"
					}
					return []Op{{"op": "update", "table": rt.Name, "where": g.whereUUID(ru), "row": map[string]any{rc: []any{"set", []any{}}}}}, "trigger-release"
				}
			}
		}
		// set-up
		mk := func(t *Table) (map[string]any, string, bool) {
			row, ok := g.rowFor(t, false)
			return row, g.uuidFor(t.Name), ok
		}
		uu := func(us ...string) any {
			var l []any
			for _, u := range us {
				l = append(l, []any{"uuid", u})
			}
			return []any{"set", l}
		}
		brow, b, ok1 := mk(t)
		arow, a, ok2 := mk(t)
		krow, k, ok3 := mk(t)
		rrow, r, ok4 := mk(rt)
		r2row, r2, ok5 := mk(rt)
		wrow, w, ok6 := mk(wt)
		if !(ok1 && ok2 && ok3 && ok4 && ok5 && ok6) {
			return nil, ""
		}
		arow[self] = uu(b)
		rrow[rc] = uu(a)
		r2row[rc] = uu(k)
		kind := "setup"
		if g.chance(500) {
			wrow[wc] = uu(a, b, k)
		} else {
			wrow[wc] = uu(a, b)
			kind = "setup-min"
		}
		ins := func(t *Table, u string, row map[string]any) Op {
			return Op{"op": "insert", "table": t.Name, "row": row, "uuid": u}
		}
		return []Op{ins(t, b, brow), ins(t, a, arow), ins(t, k, krow), ins(rt, r, rrow), ins(rt, r2, r2row), ins(wt, w, wrow)}, kind
	}
	return nil, ""
}

// indexPlay builds a whole transaction around one schema index: patterns that
// duplicate an index value only transiently (must be accepted) or finally
// (must be rejected).
// gcReuse: a non-root row that the transaction touches, then un-references (so
// that it is garbage collected at commit), while a new row takes its index
// value. Valid: the old row is gone at the end.
func (g *Gen) gcReuse() ([]Op, string) {
	for _, tn := range g.sch.TableNames {
		t := g.sch.Tables[tn]
		if g.sch.IsRoot(tn) || len(t.Indexes) == 0 || len(t.Indexes[0]) != 1 {
			continue
		}
		for _, u := range g.rowsOf(tn) {
			// exactly one strong reference, held in a set column of a root table
			type site struct{ table, row, col string }
			var refs []site
			for _, ftn := range g.sch.TableNames {
				ft := g.sch.Tables[ftn]
				for fu, fr := range g.st[ftn] {
					for _, cn := range ft.ColNames {
						c := ft.Columns[cn]
						for _, b := range []*BaseType{c.Type.Key, c.Type.Val} {
							if b == nil || b.RefTable != tn || b.RefType == "weak" {
								continue
							}
							v := fr[cn]
							hit := v.Has(AUUID(u))
							for _, p := range v.Map {
								if (p.K.T == 'u' && p.K.S == u) || (p.V.T == 'u' && p.V.S == u) {
									hit = true
								}
							}
							if hit {
								refs = append(refs, site{ftn, fu, cn})
							}
						}
					}
				}
			}
			if len(refs) != 1 {
				continue
			}
			r := refs[0]
			rc := g.sch.Tables[r.table].Columns[r.col]
			if !g.sch.IsRoot(r.table) || rc.Type.IsMap() || rc.Type.IsScalar() || rc.Type.IsOptional() || rc.Immutable {
				continue
			}
			row, ok := g.rowFor(t, false)
			if !ok {
				continue
			}
			idxCol := t.Indexes[0][0]
			row[idxCol] = ValueToWire(g.st[tn][u][idxCol], true)
			name := g.tag + "_reuse"
			touch := Op{"op": "update", "table": tn, "where": g.whereUUID(u), "row": map[string]any{"rank": 6000 + g.pick(1000)}}
			drop := Op{"op": "mutate", "table": r.table, "where": g.whereUUID(r.row), "mutations": []any{[]any{r.col, "delete", ValueToWire(SetOf(AUUID(u)), false)}}}
			ins := Op{"op": "insert", "table": tn, "row": row, "uuid-name": name}
			keep := Op{"op": "mutate", "table": r.table, "where": g.whereUUID(r.row), "mutations": []any{[]any{r.col, "insert", ValueToWire(SetOf(AUUID("@"+name)), false)}}}
			g.decl[name] = tn
			switch g.pick(3) {
			case 0:
				return []Op{touch, drop, ins, keep}, "gc-then-reuse"
			case 1:
				return []Op{touch, ins, keep, drop}, "reuse-then-gc"
			default:
				return []Op{drop, ins, keep}, "gc-untouched-then-reuse"
			}
		}
	}
	return nil, ""
}

func (g *Gen) indexPlay() ([]Op, string) {
	if g.chance(200) {
		if ops, kind := g.gcReuse(); ops != nil {
			return ops, kind
		}
	}
	var cands []*Table
	for _, tn := range g.sch.TableNames {
		t := g.sch.Tables[tn]
		if len(t.Indexes) > 0 && g.sch.IsRoot(tn) {
			cands = append(cands, t)
		}
	}
	if len(cands) == 0 {
		return nil, ""
	}
	t := cands[g.pick(len(cands))]
	idx := t.Indexes[g.pick(len(t.Indexes))]
	us := g.rowsOf(t.Name)
	vals := func(u string) map[string]any {
		o := map[string]any{}
		for _, c := range idx {
			o[c] = ValueToWire(g.st[t.Name][u][c], true)
		}
		return o
	}
	fresh := func() map[string]any {
		o := map[string]any{}
		for _, c := range idx {
			col := t.Columns[c]
			if col.Type.Key.Type == "string" {
				o[c] = fmt.Sprintf("f%d", g.pick(1000))
			} else {
				o[c] = 100 + g.pick(1000)
			}
		}
		return o
	}
	newRow := func(ix map[string]any) (map[string]any, bool) {
		row, ok := g.rowFor(t, false)
		if !ok {
			return nil, false
		}
		for c, v := range ix {
			row[c] = v
		}
		return row, true
	}
	if len(us) < 2 {
		row, ok := newRow(fresh())
		if !ok {
			return nil, ""
		}
		return []Op{{"op": "insert", "table": t.Name, "row": row, "uuid": g.uuidFor("i")}}, "seed"
	}
	a := us[g.pick(len(us))]
	b := a
	for b == a {
		b = us[g.pick(len(us))]
	}
	upd := func(u string, ix map[string]any) Op {
		return Op{"op": "update", "table": t.Name, "where": g.whereUUID(u), "row": ix}
	}
	if g.chance(450) {
		// the same patterns with operations in between and afterwards that look rows
		// up through the values involved (a row that holds a value only transiently,
		// or took it over, must be found through it by a later operation)
		byValue := func(ix map[string]any) Op {
			var conds []any
			for _, c := range idx {
				conds = append(conds, []any{c, "==", ix[c]})
			}
			if g.chance(500) {
				return Op{"op": "select", "table": t.Name, "where": conds, "columns": []string{"_uuid", idx[0], "rank"}}
			}
			return Op{"op": "update", "table": t.Name, "where": conds, "row": map[string]any{"rank": 7000 + g.pick(1000)}}
		}
		va, vb := vals(a), vals(b)
		var base []Op
		kind := ""
		switch g.pick(3) {
		case 0:
			base, kind = []Op{upd(a, vb), upd(b, va)}, "swap"
		case 1:
			base, kind = []Op{upd(b, va), upd(a, fresh())}, "handover-taker-first"
		default:
			base, kind = []Op{upd(a, vb), upd(b, fresh())}, "take-then-release"
		}
		var out []Op
		for _, op := range base {
			out = append(out, op)
			if g.chance(700) {
				out = append(out, byValue([]map[string]any{va, vb}[g.pick(2)]))
			}
		}
		out = append(out, byValue(va), byValue(vb))
		return out, kind + "+lookups"
	}
	if len(t.Indexes) > 1 && g.chance(200) {
		// a row that duplicates row b on one index while, on another index, it takes
		// the value of row a, which the transaction deletes (or moves away): the first
		// collision is legitimate, the second must still be seen. Must be rejected.
		i0 := g.pick(len(t.Indexes))
		i1 := (i0 + 1 + g.pick(len(t.Indexes)-1)) % len(t.Indexes)
		ix := map[string]any{}
		for _, c := range t.Indexes[i0] {
			ix[c] = ValueToWire(g.st[t.Name][a][c], true)
		}
		for _, c := range t.Indexes[i1] {
			ix[c] = ValueToWire(g.st[t.Name][b][c], true)
		}
		if row, ok := newRow(ix); ok {
			ins := Op{"op": "insert", "table": t.Name, "row": row, "uuid": g.uuidFor("i")}
			var away Op
			if g.chance(500) {
				away = Op{"op": "delete", "table": t.Name, "where": g.whereUUID(a)}
			} else {
				fr := map[string]any{}
				for _, c := range t.Indexes[i0] {
					if t.Columns[c].Type.Key.Type == "string" {
						fr[c] = fmt.Sprintf("f%d", g.pick(1000))
					} else {
						fr[c] = 100 + g.pick(1000)
					}
				}
				away = upd(a, fr)
			}
			if g.chance(500) {
				return []Op{away, ins}, "masked-final-dup"
			}
			return []Op{ins, away}, "masked-final-dup"
		}
	}
	switch g.pick(8) {
	case 0:
		return []Op{upd(a, vals(b)), upd(b, vals(a))}, "swap"
	case 1:
		return []Op{upd(b, vals(a)), upd(a, fresh())}, "handover-taker-first"
	case 2:
		return []Op{upd(a, fresh()), upd(b, vals(a))}, "handover-giver-first"
	case 3:
		row, ok := newRow(vals(a))
		if !ok {
			return nil, ""
		}
		return []Op{{"op": "delete", "table": t.Name, "where": g.whereUUID(a)}, {"op": "insert", "table": t.Name, "row": row, "uuid": g.uuidFor("i")}}, "delete-reinsert"
	case 4:
		row, ok := newRow(vals(a))
		if !ok {
			return nil, ""
		}
		return []Op{{"op": "insert", "table": t.Name, "row": row, "uuid": g.uuidFor("i")}, {"op": "delete", "table": t.Name, "where": g.whereUUID(a)}}, "insert-then-delete-old"
	case 5:
		row, ok := newRow(vals(a))
		if !ok {
			return nil, ""
		}
		return []Op{{"op": "insert", "table": t.Name, "row": row, "uuid": g.uuidFor("i")}}, "final-dup-insert"
	case 6:
		return []Op{upd(b, vals(a))}, "final-dup-update"
	default:
		row, ok := newRow(vals(a))
		if !ok {
			return nil, ""
		}
		return []Op{{"op": "insert", "table": t.Name, "row": row, "uuid": g.uuidFor("i")}, upd(a, fresh())}, "transient-dup-insert"
	}
}
