package harness

// Independent value model for OVSDB data (RFC 7047 §5.1): every column value
// is a set of atoms or a map of atom pairs; a scalar is a one-element set.
// Nothing here uses libovsdb's mapper or ovsdb bindings: values are converted
// from wire JSON by hand and from model structs by reflection on struct tags.

import (
	"encoding/json"
	"fmt"
	"github.com/ovn-org/libovsdb/simrt"
	"math"
	"reflect"
	"sort"
	"strconv"
	"strings"
)

type Atom struct {
	T byte // 'i' integer, 'r' real, 'b' boolean, 's' string, 'u' uuid
	I int64
	R float64
	B bool
	S string
}

func AInt(i int64) Atom    { return Atom{T: 'i', I: i} }
func AReal(r float64) Atom { return Atom{T: 'r', R: r} }
func ABool(b bool) Atom    { return Atom{T: 'b', B: b} }
func AStr(s string) Atom   { return Atom{T: 's', S: s} }
func AUUID(s string) Atom  { return Atom{T: 'u', S: s} }

func (a Atom) String() string {
	switch a.T {
	case 'i':
		return strconv.FormatInt(a.I, 10)
	case 'r':
		return "r" + strconv.FormatFloat(a.R, 'g', -1, 64)
	case 'b':
		return strconv.FormatBool(a.B)
	case 's':
		return strconv.Quote(a.S)
	case 'u':
		return "<" + a.S + ">"
	}
	return "?"
}

func (a Atom) Less(b Atom) bool {
	if a.T != b.T {
		return a.T < b.T
	}
	switch a.T {
	case 'i':
		return a.I < b.I
	case 'r':
		return a.R < b.R
	case 'b':
		return !a.B && b.B
	}
	return a.S < b.S
}

func (a Atom) Eq(b Atom) bool { return a == b }

type Pair struct{ K, V Atom }

// Value is a set (IsMap=false) or a map.
type Value struct {
	IsMap bool
	Set   []Atom // sorted, unique
	Map   []Pair // sorted by key, unique keys
}

func SetOf(atoms ...Atom) Value {
	v := Value{Set: append([]Atom(nil), atoms...)}
	v.norm()
	return v
}

func MapOf(pairs ...Pair) Value {
	v := Value{IsMap: true, Map: append([]Pair(nil), pairs...)}
	v.norm()
	return v
}

func (v *Value) norm() {
	if v.IsMap {
		sort.SliceStable(v.Map, func(i, j int) bool { return v.Map[i].K.Less(v.Map[j].K) })
		out := v.Map[:0]
		for i, p := range v.Map {
			if i > 0 && p.K == out[len(out)-1].K {
				continue
			}
			out = append(out, p)
		}
		v.Map = out
		return
	}
	sort.SliceStable(v.Set, func(i, j int) bool { return v.Set[i].Less(v.Set[j]) })
	out := v.Set[:0]
	for i, a := range v.Set {
		if i > 0 && a == out[len(out)-1] {
			continue
		}
		out = append(out, a)
	}
	v.Set = out
}

func (v Value) Len() int {
	if v.IsMap {
		return len(v.Map)
	}
	return len(v.Set)
}

func (v Value) String() string {
	var sb strings.Builder
	if v.IsMap {
		sb.WriteString("{")
		for i, p := range v.Map {
			if i > 0 {
				sb.WriteString(",")
			}
			sb.WriteString(p.K.String() + "=" + p.V.String())
		}
		sb.WriteString("}")
		return sb.String()
	}
	sb.WriteString("[")
	for i, a := range v.Set {
		if i > 0 {
			sb.WriteString(",")
		}
		sb.WriteString(a.String())
	}
	sb.WriteString("]")
	return sb.String()
}

func (v Value) Eq(o Value) bool { return v.String() == o.String() }

func (v Value) Clone() Value {
	return Value{IsMap: v.IsMap, Set: append([]Atom(nil), v.Set...), Map: append([]Pair(nil), v.Map...)}
}

func (v Value) Has(a Atom) bool {
	for _, x := range v.Set {
		if x == a {
			return true
		}
	}
	return false
}

func (v Value) Get(k Atom) (Atom, bool) {
	for _, p := range v.Map {
		if p.K == k {
			return p.V, true
		}
	}
	return Atom{}, false
}

// Row is one database row: column -> value. "_uuid" is not stored in it.
type Row map[string]Value

func (r Row) Clone() Row {
	o := make(Row, len(r))
	for k, v := range r {
		o[k] = v.Clone()
	}
	return o
}

func (r Row) String() string {
	ks := make([]string, 0, len(r))
	for k := range r {
		ks = append(ks, k)
	}
	sort.Strings(ks)
	var sb strings.Builder
	sb.WriteString("(")
	for i, k := range ks {
		if i > 0 {
			sb.WriteString(" ")
		}
		sb.WriteString(k + ":" + r[k].String())
	}
	sb.WriteString(")")
	return sb.String()
}

// Project keeps only the given columns.
func (r Row) Project(cols []string) Row {
	o := Row{}
	for _, c := range cols {
		if v, ok := r[c]; ok {
			o[c] = v
		}
	}
	return o
}

// TableData maps uuid -> row; DBState maps table -> TableData.
type TableData map[string]Row
type DBState map[string]TableData

func (d DBState) Clone() DBState {
	o := DBState{}
	for t, td := range d {
		o[t] = TableData{}
		for u, r := range td {
			o[t][u] = r.Clone()
		}
	}
	return o
}

func (d DBState) String() string {
	var sb strings.Builder
	ts := make([]string, 0, len(d))
	for t := range d {
		ts = append(ts, t)
	}
	sort.Strings(ts)
	for _, t := range ts {
		us := make([]string, 0, len(d[t]))
		for u := range d[t] {
			us = append(us, u)
		}
		sort.Strings(us)
		for _, u := range us {
			sb.WriteString(t + "/" + u + " " + d[t][u].String() + "\n")
		}
	}
	return sb.String()
}

func (d DBState) Rows() int {
	n := 0
	for _, td := range d {
		n += len(td)
	}
	return n
}

// DiffStates describes how b differs from a (empty string: equal), restricted
// to cols (nil: all columns) per table.
func DiffStates(a, b DBState, tables []string, cols map[string][]string) string {
	simrt.Heartbeat.Add(1) // analysis is progress too (watchdog food)
	var out []string
	for _, t := range tables {
		ta, tb := a[t], b[t]
		for u, ra := range ta {
			rb, ok := tb[u]
			if !ok {
				out = append(out, fmt.Sprintf("%s/%s only in first: %s", t, u, ra))
				continue
			}
			cs := cols[t]
			if cs == nil {
				seen := map[string]bool{}
				for c := range ra {
					seen[c] = true
				}
				for c := range rb {
					seen[c] = true
				}
				for c := range seen {
					cs = append(cs, c)
				}
				sort.Strings(cs)
			}
			for _, c := range cs {
				va, oka := ra[c]
				vb, okb := rb[c]
				if oka != okb || !va.Eq(vb) {
					out = append(out, fmt.Sprintf("%s/%s.%s: %s vs %s", t, u, c, va, vb))
				}
			}
		}
		for u, rb := range tb {
			if _, ok := ta[u]; !ok {
				out = append(out, fmt.Sprintf("%s/%s only in second: %s", t, u, rb))
			}
		}
	}
	sort.Strings(out)
	if len(out) > 12 {
		out = append(out[:12], fmt.Sprintf("... %d more", len(out)-12))
	}
	return strings.Join(out, "\n")
}

// ---- wire JSON <-> values ------------------------------------------------------

// AtomFromWire converts a decoded JSON atom (float64/bool/string/["uuid",x])
// to an Atom of base type bt. Named UUIDs are returned as uuid atoms whose
// string starts with "@".
func AtomFromWire(bt string, j any) (Atom, error) {
	switch bt {
	case "integer":
		f, ok := j.(float64)
		if !ok || f != math.Trunc(f) {
			return Atom{}, fmt.Errorf("not an integer: %v", j)
		}
		return AInt(int64(f)), nil
	case "real":
		f, ok := j.(float64)
		if !ok {
			return Atom{}, fmt.Errorf("not a real: %v", j)
		}
		return AReal(f), nil
	case "boolean":
		b, ok := j.(bool)
		if !ok {
			return Atom{}, fmt.Errorf("not a boolean: %v", j)
		}
		return ABool(b), nil
	case "string":
		s, ok := j.(string)
		if !ok {
			return Atom{}, fmt.Errorf("not a string: %v", j)
		}
		return AStr(s), nil
	case "uuid":
		arr, ok := j.([]any)
		if !ok || len(arr) != 2 {
			return Atom{}, fmt.Errorf("not a uuid: %v", j)
		}
		tag, _ := arr[0].(string)
		s, ok := arr[1].(string)
		if !ok {
			return Atom{}, fmt.Errorf("not a uuid: %v", j)
		}
		switch tag {
		case "uuid":
			return AUUID(s), nil
		case "named-uuid":
			return AUUID("@" + s), nil
		}
		return Atom{}, fmt.Errorf("not a uuid: %v", j)
	}
	return Atom{}, fmt.Errorf("unknown base type %q", bt)
}

// ValueFromWire converts a decoded JSON column value to a Value.
func ValueFromWire(ct *ColType, j any) (Value, error) {
	if ct.IsMap() {
		arr, ok := j.([]any)
		if !ok || len(arr) != 2 || arr[0] != "map" {
			return Value{}, fmt.Errorf("not a map: %v", j)
		}
		prs, ok := arr[1].([]any)
		if !ok {
			return Value{}, fmt.Errorf("not a map: %v", j)
		}
		v := Value{IsMap: true}
		for _, p := range prs {
			kv, ok := p.([]any)
			if !ok || len(kv) != 2 {
				return Value{}, fmt.Errorf("bad pair: %v", p)
			}
			k, err := AtomFromWire(ct.Key.Type, kv[0])
			if err != nil {
				return Value{}, err
			}
			x, err := AtomFromWire(ct.Val.Type, kv[1])
			if err != nil {
				return Value{}, err
			}
			v.Map = append(v.Map, Pair{k, x})
		}
		v.norm()
		return v, nil
	}
	if arr, ok := j.([]any); ok && len(arr) == 2 && arr[0] == "set" {
		els, ok := arr[1].([]any)
		if !ok {
			return Value{}, fmt.Errorf("not a set: %v", j)
		}
		v := Value{}
		for _, e := range els {
			a, err := AtomFromWire(ct.Key.Type, e)
			if err != nil {
				return Value{}, err
			}
			v.Set = append(v.Set, a)
		}
		v.norm()
		return v, nil
	}
	a, err := AtomFromWire(ct.Key.Type, j)
	if err != nil {
		return Value{}, err
	}
	return SetOf(a), nil
}

func AtomToWire(a Atom) any {
	switch a.T {
	case 'i':
		return a.I
	case 'r':
		// a database that was made to hold an infinity or a NaN (overflowing
		// arithmetic) must not take the harness's own JSON encoder down
		if math.IsInf(a.R, 0) || math.IsNaN(a.R) {
			return 1e308
		}
		return a.R
	case 'b':
		return a.B
	case 's':
		return a.S
	case 'u':
		if strings.HasPrefix(a.S, "@") {
			return []any{"named-uuid", a.S[1:]}
		}
		return []any{"uuid", a.S}
	}
	return nil
}

// ValueToWire encodes a value in OVSDB JSON notation. A one-element set is
// written as a bare atom when bare is true.
func ValueToWire(v Value, bare bool) any {
	if v.IsMap {
		prs := make([]any, 0, len(v.Map))
		for _, p := range v.Map {
			prs = append(prs, []any{AtomToWire(p.K), AtomToWire(p.V)})
		}
		return []any{"map", prs}
	}
	if bare && len(v.Set) == 1 {
		return AtomToWire(v.Set[0])
	}
	els := make([]any, 0, len(v.Set))
	for _, a := range v.Set {
		els = append(els, AtomToWire(a))
	}
	return []any{"set", els}
}

// RowFromWire converts a decoded JSON row object. Unknown columns are an error;
// "_uuid" and "_version" are skipped (uuid returned separately).
func RowFromWire(t *Table, j any) (Row, string, error) {
	obj, ok := j.(map[string]any)
	if !ok {
		return nil, "", fmt.Errorf("row is not an object: %v", j)
	}
	r := Row{}
	uuid := ""
	for c, raw := range obj {
		if c == "_uuid" {
			a, err := AtomFromWire("uuid", raw)
			if err != nil {
				return nil, "", err
			}
			uuid = a.S
			continue
		}
		if c == "_version" {
			continue
		}
		col := t.Columns[c]
		if col == nil {
			return nil, "", fmt.Errorf("unknown column %s.%s", t.Name, c)
		}
		v, err := ValueFromWire(&col.Type, raw)
		if err != nil {
			return nil, "", fmt.Errorf("%s.%s: %w", t.Name, c, err)
		}
		r[c] = v
	}
	return r, uuid, nil
}

func RowToWire(r Row) map[string]any {
	o := map[string]any{}
	for c, v := range r {
		o[c] = ValueToWire(v, true)
	}
	return o
}

func mustJSON(v any) []byte {
	b, err := json.Marshal(v)
	if err != nil {
		panic(err)
	}
	return b
}

// ---- model struct -> row (reflection on `ovsdb` tags, no mapper) ---------------

func atomFromGo(bt string, rv reflect.Value) Atom {
	switch bt {
	case "integer":
		return AInt(rv.Int())
	case "real":
		return AReal(rv.Float())
	case "boolean":
		return ABool(rv.Bool())
	case "string":
		return AStr(rv.String())
	case "uuid":
		return AUUID(rv.String())
	}
	panic("bad base type " + bt)
}

// RowFromModel reads a model struct (pointer) into a Row using the schema's
// column types. Returns the row and the _uuid field.
func RowFromModel(t *Table, m any) (Row, string) {
	rv := reflect.ValueOf(m)
	for rv.Kind() == reflect.Pointer || rv.Kind() == reflect.Interface {
		if rv.IsNil() {
			return nil, ""
		}
		rv = rv.Elem()
	}
	r := Row{}
	uuid := ""
	rt := rv.Type()
	for i := 0; i < rt.NumField(); i++ {
		tag := rt.Field(i).Tag.Get("ovsdb")
		if tag == "" {
			continue
		}
		fv := rv.Field(i)
		if tag == "_uuid" {
			uuid = fv.String()
			continue
		}
		col := t.Columns[tag]
		if col == nil {
			continue
		}
		r[tag] = valueFromGo(&col.Type, fv)
	}
	return r, uuid
}

func valueFromGo(ct *ColType, fv reflect.Value) Value {
	switch fv.Kind() {
	case reflect.Map:
		v := Value{IsMap: true}
		it := fv.MapRange()
		for it.Next() {
			v.Map = append(v.Map, Pair{atomFromGo(ct.Key.Type, it.Key()), atomFromGo(ct.Val.Type, it.Value())})
		}
		v.norm()
		return v
	case reflect.Slice:
		v := Value{}
		for i := 0; i < fv.Len(); i++ {
			v.Set = append(v.Set, atomFromGo(ct.Key.Type, fv.Index(i)))
		}
		v.norm()
		return v
	case reflect.Pointer:
		if fv.IsNil() {
			return Value{}
		}
		return SetOf(atomFromGo(ct.Key.Type, fv.Elem()))
	}
	if ct.IsMap() {
		return Value{IsMap: true}
	}
	return SetOf(atomFromGo(ct.Key.Type, fv))
}
