package harness

import (
	"bytes"
	"encoding/json"
	"fmt"

	"github.com/ovn-org/libovsdb/simrt"
)

// RawPeer is a minimal JSON-RPC endpoint that runs entirely on the simulator
// goroutine: it sends hand-built frames and records every frame it receives.
// It contains no libovsdb logic (encoding/json only). Notifications from the
// server that carry an id are answered immediately with an empty result, as a
// well-behaved OVSDB client would.
type RawPeer struct {
	Name   string
	env    *Env
	conn   *simrt.RawConn
	nextID int
	Closed bool

	Pending map[int]*RawCall
	Calls   []*RawCall
	// Notes are the server-initiated requests received, in order.
	Notes []*RawNote
	// AutoReply can be switched off to model a silent peer.
	AutoReply bool
	OnNote    func(n *RawNote)
}

type RawCall struct {
	ID       int
	Method   string
	Params   any
	SentSeq  int
	Done     bool
	DoneSeq  int
	Result   json.RawMessage
	Error    json.RawMessage
	ErrorStr string
	Tag      string
}

type RawNote struct {
	Seq    int
	Method string
	Params []json.RawMessage
	ID     json.RawMessage
}

func (e *Env) NewRawPeer(name, addr string) (*RawPeer, error) {
	p := &RawPeer{Name: name, env: e, Pending: map[int]*RawCall{}, AutoReply: true}
	c, err := e.Sim.Net.DialRaw(addr, p.onFrame)
	if err != nil {
		return nil, err
	}
	p.conn = c
	e.Peers = append(e.Peers, p)
	return p, nil
}

func (p *RawPeer) Link() *simrt.Link { return p.conn.Link }

// Call sends a request; the reply is recorded when the scheduler delivers it.
func (p *RawPeer) Call(method string, params any) *RawCall {
	p.nextID++
	c := &RawCall{ID: p.nextID, Method: method, Params: params, SentSeq: p.env.NextSeq()}
	p.Pending[c.ID] = c
	p.Calls = append(p.Calls, c)
	frame := mustJSON(map[string]any{"method": method, "params": params, "id": c.ID})
	if err := p.conn.Send(append(frame, '\n')); err != nil {
		c.Done = true
		c.ErrorStr = "send: " + err.Error()
		c.DoneSeq = p.env.NextSeq()
		delete(p.Pending, c.ID)
	}
	return c
}

// SendRaw sends arbitrary bytes as one frame.
func (p *RawPeer) SendRaw(b []byte) error { return p.conn.Send(b) }

func (p *RawPeer) Close() { p.conn.Close(); p.Closed = true }

func (p *RawPeer) onFrame(f []byte) {
	if f == nil {
		p.Closed = true
		seq := p.env.NextSeq()
		for id, c := range p.Pending {
			c.Done = true
			c.ErrorStr = "connection closed"
			c.DoneSeq = seq
			delete(p.Pending, id)
		}
		return
	}
	dec := json.NewDecoder(bytes.NewReader(f))
	for dec.More() {
		var msg struct {
			Method string            `json:"method"`
			Params []json.RawMessage `json:"params"`
			ID     json.RawMessage   `json:"id"`
			Result json.RawMessage   `json:"result"`
			Error  json.RawMessage   `json:"error"`
		}
		if err := dec.Decode(&msg); err != nil {
			p.env.Fatalf("raw peer %s: undecodable frame from server: %v: %q", p.Name, err, f)
			return
		}
		if msg.Method != "" {
			n := &RawNote{Seq: p.env.NextSeq(), Method: msg.Method, Params: msg.Params, ID: msg.ID}
			p.Notes = append(p.Notes, n)
			if p.OnNote != nil {
				p.OnNote(n)
			}
			if p.AutoReply && len(msg.ID) > 0 && string(msg.ID) != "null" {
				var res any = []any{}
				if msg.Method == "echo" {
					res = msg.Params
				}
				_ = p.conn.Send(append(mustJSON(map[string]any{"id": msg.ID, "result": res, "error": nil}), '\n'))
			}
			continue
		}
		var id int
		if err := json.Unmarshal(msg.ID, &id); err != nil {
			p.env.Fatalf("raw peer %s: reply with non-integer id %s", p.Name, msg.ID)
			return
		}
		c := p.Pending[id]
		if c == nil {
			p.env.Fatalf("raw peer %s: reply to unknown id %d", p.Name, id)
			return
		}
		delete(p.Pending, id)
		c.Done = true
		c.DoneSeq = p.env.NextSeq()
		c.Result = msg.Result
		c.Error = msg.Error
		if len(msg.Error) > 0 && string(msg.Error) != "null" {
			c.ErrorStr = string(msg.Error)
		}
	}
}

func (c *RawCall) String() string {
	return fmt.Sprintf("%s#%d done=%v err=%s result=%s", c.Method, c.ID, c.Done, c.ErrorStr, c.Result)
}
