package harness

import (
	"context"
	"fmt"
	"reflect"
	"strings"
	"time"

	"github.com/ovn-org/libovsdb/client"
	"github.com/ovn-org/libovsdb/model"
	"github.com/ovn-org/libovsdb/ovsdb"
	"github.com/ovn-org/libovsdb/simrt"
)

// Scenario S5 "api-chaos": the S4 world (server, reconnecting client with
// monitors, writer, fault plan) plus 2-4 caller goroutines that issue client
// API calls concurrently, each with a finite simulated deadline, including
// every failing variant. Serves C18:
//   - every call returns within its deadline plus slack (a call still
//     outstanding when nothing but time is enabled is a dead-lock and is
//     reported with the lock wait-for information);
//   - every row a reader obtains equals, in all monitored columns, one version
//     of that row from the commit history (no torn rows);
//   - no call panics and the process survives.
// Data-race freedom in the memory-model sense is NOT decided here.

func init() {
	cfgByProp["C18"] = cfgS5
	runByScenario["S5"] = runS5
}

type apiCall struct {
	Kind    string
	call    *Call
	timeout time.Duration
	rows    []readRow
}

type readRow struct {
	table, uuid string
	row         Row
}

func cfgS5(prop string, seed uint64, tier string) *RunCfg {
	c := cfgS4(prop, seed^0x5555, tier)
	c.Scenario = "S5"
	c.Seed = seed
	r := simrt.NewRand(seed ^ 0x55aa)
	c.YieldPermil = []int{30, 150, 400}[r.Intn(3)]
	c.Knobs["callers"] = 2 + r.Intn(3)
	c.Knobs["calls_per_caller"] = 5 + r.Intn(8)
	if tier == "thorough" {
		c.Knobs["calls_per_caller"] = 8 + r.Intn(16)
	}
	c.Knobs["chaos_seed"] = int(r.Uint64() >> 33)
	c.Knobs["lifecycle"] = r.Intn(3) // 0: no Disconnect/Connect/Close calls; 1: Disconnect/Connect; 2: also Close
	if r.Intn(3) == 0 {
		c.Faults = nil // chaos without network faults
	}
	// one table stays unmonitored: a Monitor call whose context is cancelled may
	// still reach the server, and two monitors on one table are outside the
	// properties' statements (their differences would be applied twice)
	var mons []MonSpec
	for _, m := range c.Monitors {
		delete(m.Tables, "Grand")
		if len(m.Tables) > 0 {
			mons = append(mons, m)
		}
	}
	if len(mons) == 0 {
		sch := KitchenSink(c.SchemaVariant)
		mons = []MonSpec{{Owner: "c0", Method: "monitor_cond", Tables: map[string]*MonTable{"Root": {Columns: sch.Tables["Root"].ColNames, Initial: true, Insert: true, Delete: true, Modify: true}}}}
	}
	c.Monitors = mons
	return c
}

var apiKinds = []string{"get", "get", "list", "list", "rows", "transact", "transact", "transact-invalid", "echo", "monitor-unknown-table", "monitor-with-errors", "monitor-no-tables", "monitor-cancel", "where-list", "expired-ctx-transact", "expired-ctx-get", "cancelled-monitor", "schema", "connected"}

func runS5(e *Env, cfg *RunCfg) {
	base := &s3{e: e, cfg: cfg, db: e.Sch.Name}
	s := &s4{s3: base, active: map[string]bool{}}
	s.spec = cfg.Clients[0]
	s.timeout = ms(cfg.Knob("timeout_ms", 2000))
	s.backoff = ms(cfg.Knob("backoff_ms", 100))
	s.inact = ms(s.spec.Inactivity)
	s.bound = 4*(s.timeout+s.backoff) + 4*s.inact + 5*time.Second
	s.srv = e.StartServer(epMain, false, nil)
	if e.Stopped() {
		return
	}
	var err error
	s.w, err = e.NewRawPeer("w", epMain)
	if err != nil {
		e.Fatalf("writer dial: %v", err)
		return
	}
	e.Sim.Net.BeforeDeliver = s.beforeDeliver
	o := ClientOpts{Reconnect: true, Timeout: s.timeout, BackoffStep: s.backoff, Inactivity: s.inact}
	ci := e.NewClient(s.spec.Name, []string{epMain}, o)
	if ci == nil {
		return
	}
	s.mc = &mirrorClient{ci: ci, spec: s.spec, tables: map[string][]string{}}
	if err := e.ConnectClient(ci, 5*time.Second); err != nil {
		if !e.Stopped() {
			e.Fatalf("fault-free connect failed: %v", err)
		}
		return
	}
	var cookies []client.MonitorCookie
	for _, m := range cfg.Monitors {
		cm := s.startMonitor(s.mc, m)
		if !e.WaitCall(cm.call) || cm.err != nil {
			if !e.Stopped() {
				e.Fatalf("fault-free monitor failed: %v", cm.err)
			}
			return
		}
		cookies = append(cookies, cm.cookie)
		for tn, mt := range m.Tables {
			s.mc.tables[tn] = mt.Columns
		}
	}
	// a little history first
	for i := 0; i < 3 && i < len(cfg.Txns); i++ {
		if !s.writerTransact(i, cfg.Txns[i]) {
			return
		}
	}
	e.Settle()

	// ---- chaos phase ----
	ncall := cfg.Knob("callers", 2)
	per := cfg.Knob("calls_per_caller", 6)
	r := simrt.NewRand(uint64(cfg.Knob("chaos_seed", 1)))
	life := cfg.Knob("lifecycle", 0)
	kinds := append([]string(nil), apiKinds...)
	if life >= 1 {
		kinds = append(kinds, "disconnect", "connect", "connect")
	}
	if life >= 2 {
		kinds = append(kinds, "close", "connect")
	}
	plans := make([][]string, ncall)
	for k := range plans {
		for j := 0; j < per; j++ {
			plans[k] = append(plans[k], kinds[r.Intn(len(kinds))])
		}
	}
	var all []*apiCall
	next := make([]int, ncall)
	cur := make([]*apiCall, ncall)
	txnI := 3
	markerN := 0
	e.ExtraActs = func() []simrt.Action {
		var acts []simrt.Action
		for k := 0; k < ncall; k++ {
			if cur[k] != nil && cur[k].call.Done() {
				cur[k] = nil
			}
			if cur[k] == nil && next[k] < len(plans[k]) {
				k := k
				acts = append(acts, simrt.Action{Key: fmt.Sprintf("op:caller%d", k), Kind: "op", Weight: 20, Do: func() {
					kind := plans[k][next[k]]
					next[k]++
					markerN++
					ac := s.apiCall(fmt.Sprintf("caller%d.%d", k, next[k]), kind, r, cookies, markerN)
					cur[k] = ac
					all = append(all, ac)
				}})
			}
		}
		// the writer keeps committing, and the fault plan keeps striking
		if txnI < len(cfg.Txns) && !s.w.Closed && len(s.w.Pending) == 0 {
			acts = append(acts, simrt.Action{Key: "op:writer", Kind: "op", Weight: 10, Do: func() {
				i := txnI
				txnI++
				s.arm(i)
				if e.Stopped() || s.w.Closed {
					return
				}
				s.writerIssue(i, cfg.Txns[i])
			}})
		}
		return acts
	}
	done := func() bool {
		for k := 0; k < ncall; k++ {
			if next[k] < len(plans[k]) || (cur[k] != nil && !cur[k].call.Done()) {
				return false
			}
		}
		return true
	}
	finished := e.RunUntil(done)
	e.ExtraActs = nil
	if e.Stopped() {
		return
	}
	// faults stop; every call must now return by its deadline
	s.armed = nil
	if !finished {
		e.Logf("chaos phase did not finish by itself (steps=%d now=%v)", e.Sim.Stats.Steps, e.Now())
	}
	var maxDL time.Duration
	for _, ac := range all {
		if dl := ac.call.StartAt + ac.timeout + s.bound; dl > maxDL {
			maxDL = dl
		}
	}
	e.RunUntil(func() bool {
		if e.Now() > maxDL {
			return true
		}
		for _, ac := range all {
			if !ac.call.Done() {
				return false
			}
		}
		return true
	})
	if e.Stopped() {
		return
	}
	for _, ac := range all {
		e.Probes["api_"+ac.Kind]++
		if ac.call.Panic != "" {
			e.ViolateK("C18.panic", ac.Kind, "%s (%s) panicked: %s", ac.call.Name, ac.Kind, trimStr(ac.call.Panic, 3000))
			return
		}
		if !ac.call.Done() {
			st := libStacks()
			if key := calleeOf(st, "database/transaction.(*Transaction).Transact"); key != "" && strings.Contains(key, "ProcessReferences") {
				e.Abort("server never answers (" + key + "): C04's concern")
				return
			}
			kind := "no-progress"
			if len(e.Sim.Blocked()) > 0 {
				kind = "dead-lock"
			}
			var prior []string
			for _, p := range all {
				if p.call.Done() && p.call.Err != nil && p.call.EndSeq < ac.call.StartSeq+1000000 {
					prior = append(prior, p.Kind)
				}
			}
			e.ViolateK("C18.call-never-returns", ac.Kind+":"+kind, "%s (%s, started at %v with a %v deadline) has not returned at %v (%s)\nblocked: %v\ncalls that failed earlier: %v\nclient log: %v\n%s", ac.call.Name, ac.Kind, ac.call.StartAt, ac.timeout, e.Now(), kind, e.Sim.Blocked(), prior, tail(s.mc.ci.Log.lines, 8), trimStr(goroutinesOf(st, "harness.(*s4).apiCall"), 5000))
			return
		}
		if over := ac.call.EndAt - (ac.call.StartAt + ac.timeout); over > s.bound {
			e.ViolateK("C18.call-overruns-deadline", ac.Kind, "%s (%s) returned %v after its context deadline (bound %v)", ac.call.Name, ac.Kind, over, s.bound)
			return
		}
	}
	e.Probes["api_calls_checked"] += len(all)
	if len(all) > 0 {
		e.Probes["checked_nonempty"]++
	}
	// no torn rows: every row read equals one committed version. The server
	// notifies before it commits, so let the writer's last transaction commit
	// first (a version that was notified but never committed is not "torn").
	wdl := e.Now() + s.bound
	e.RunUntil(func() bool { return len(s.w.Pending) == 0 || s.w.Closed || e.Now() > wdl })
	if e.Stopped() {
		return
	}
	if len(s.w.Pending) != 0 && !s.w.Closed {
		e.Probes["torn_check_skipped_writer_in_flight"]++
		return
	}
	// ... and every other transaction the server is still working on (a caller's
	// Transact may have given up while its transaction is still being processed)
	qdl := e.Now() + s.bound
	e.RunUntil(func() bool { return e.Quiet() || e.Now() > qdl })
	if e.Stopped() {
		return
	}
	versions := map[string]map[string]bool{}
	addVersions := func(st DBState) {
		for tn, cols := range s.mc.tables {
			for u, row := range st[tn] {
				k := tn + "/" + u
				if versions[k] == nil {
					versions[k] = map[string]bool{}
				}
				versions[k][row.Project(cols).String()] = true
			}
		}
	}
	for _, c := range s.srv.DB.Commits {
		if c.Before != nil {
			addVersions(c.Before)
		}
		if c.After != nil {
			addVersions(c.After)
		}
	}
	for _, ac := range all {
		for _, rr := range ac.rows {
			cols, mon := s.mc.tables[rr.table]
			if !mon {
				continue
			}
			e.Probes["rows_read_checked"]++
			got := rr.row.Project(cols).String()
			if len(versions[rr.table+"/"+rr.uuid]) == 0 {
				// announced by the server but never committed (the server notifies before it
				// commits): not a mix of two versions
				e.Probes["row_read_never_committed"]++
				continue
			}
			if !versions[rr.table+"/"+rr.uuid][got] {
				var vs []string
				for v := range versions[rr.table+"/"+rr.uuid] {
					vs = append(vs, v)
				}
				e.ViolateK("C18.torn-row", ac.Kind, "%s (%s) obtained row %s/%s = %s which equals no committed version of that row\nversions: %s", ac.call.Name, ac.Kind, rr.table, rr.uuid, got, trimStr(strings.Join(vs, "\n"), 3000))
				return
			}
		}
	}
}

// goroutinesOf keeps the stacks that contain marker.
func goroutinesOf(stacks, marker string) string {
	var out []string
	for _, g := range strings.Split(stacks, "\n\n") {
		if strings.Contains(g, marker) {
			out = append(out, g)
		}
	}
	return strings.Join(out, "\n\n")
}

// writerIssue sends a writer transaction without waiting for it.
func (s *s4) writerIssue(i int, txn TxnSpec) {
	e := s.e
	before := DBState{}
	if n := len(s.srv.DB.Commits); n > 0 && s.srv.DB.Commits[n-1].After != nil {
		before = s.srv.DB.Commits[n-1].After
	}
	g := NewGen(e.Sch, txn.GenSeed, before, ProfileByName(txn.Profile), fmt.Sprintf("t%d", i))
	g.UUIDWhereOnly = true
	ops, _ := g.Txn()
	ops = NormalizeOps(ops)
	params := []any{s.db}
	for _, op := range ops {
		params = append(params, op)
	}
	s.w.Call("transact", params)
	e.Logf("writer txn %d issued: %s", i, trimStr(string(mustJSON(ops)), 1500))
}

func (s *s4) apiCall(name, kind string, r *simrt.Rand, cookies []client.MonitorCookie, n int) *apiCall {
	e := s.e
	c := s.mc.ci.C
	timeout := []time.Duration{200 * time.Millisecond, time.Second, 3 * time.Second}[r.Intn(3)]
	ac := &apiCall{Kind: kind, timeout: timeout}
	tabs := SortedKeys(s.mc.tables)
	tn := tabs[r.Intn(len(tabs))]
	var someUUID string
	if nc := len(s.srv.DB.Commits); nc > 0 && s.srv.DB.Commits[nc-1].After != nil {
		us := SortedKeys(s.srv.DB.Commits[nc-1].After[tn])
		if len(us) > 0 {
			someUUID = us[r.Intn(len(us))]
		}
	}
	var cancelCookie client.MonitorCookie
	if len(cookies) > 0 {
		cancelCookie = cookies[r.Intn(len(cookies))]
	}
	record := func(table string, m model.Model) {
		row, u := RowFromModel(e.Sch.Tables[table], m)
		ac.rows = append(ac.rows, readRow{table, u, row})
	}
	ac.call = e.Go(name, func(call *Call) {
		ctx, cancel := context.WithTimeout(context.Background(), timeout)
		defer cancel()
		switch kind {
		case "get", "expired-ctx-get":
			if kind == "expired-ctx-get" {
				cancel()
			}
			m := reflect.New(e.Types[tn]).Interface()
			reflect.ValueOf(m).Elem().FieldByName("UUID").SetString(someUUID)
			call.Err = c.Get(ctx, m)
			if call.Err == nil {
				record(tn, m)
			}
		case "list", "where-list":
			lst := reflect.New(reflect.SliceOf(reflect.PointerTo(e.Types[tn])))
			if kind == "list" {
				call.Err = c.List(ctx, lst.Interface())
			} else {
				m := reflect.New(e.Types[tn]).Interface()
				reflect.ValueOf(m).Elem().FieldByName("UUID").SetString(someUUID)
				call.Err = c.Where(m).List(ctx, lst.Interface())
			}
			if call.Err == nil {
				for k := 0; k < lst.Elem().Len(); k++ {
					record(tn, lst.Elem().Index(k).Interface())
				}
			}
		case "rows":
			if tc := c.Cache(); tc != nil {
				if rc := tc.Table(tn); rc != nil {
					for _, m := range rc.Rows() {
						record(tn, m)
					}
				}
			}
		case "transact", "expired-ctx-transact":
			if kind == "expired-ctx-transact" {
				cancel()
			}
			op := Op{"op": "insert", "table": "Root", "row": map[string]any{"name": fmt.Sprintf("api-%d", n), "ia": 400000 + n, "ib": "api", "kind": "a"}}
			var lops []ovsdb.Operation
			_ = jsonUnmarshal(mustJSON([]Op{op}), &lops)
			_, call.Err = c.Transact(ctx, lops...)
		case "transact-invalid":
			_, call.Err = c.Transact(ctx, ovsdb.Operation{Op: ovsdb.OperationInsert, Table: "NoSuchTable", Row: ovsdb.Row{"x": 1}})
		case "echo":
			call.Err = c.Echo(ctx)
		case "monitor-unknown-table":
			mon := c.NewMonitor()
			mon.Tables = append(mon.Tables, client.TableMonitor{Table: "NoSuchTable"})
			_, call.Err = c.Monitor(ctx, mon)
		case "monitor-with-errors":
			type stranger struct {
				UUID string `ovsdb:"_uuid"`
			}
			mon := c.NewMonitor(client.WithTable(&stranger{}))
			_, call.Err = c.Monitor(ctx, mon)
		case "monitor-no-tables":
			_, call.Err = c.Monitor(ctx, c.NewMonitor())
		case "cancelled-monitor":
			cancel()
			m := reflect.New(e.Types["Grand"]).Interface()
			_, call.Err = c.Monitor(ctx, c.NewMonitor(client.WithTable(m)))
		case "monitor-cancel":
			if len(cookies) > 0 {
				call.Err = c.MonitorCancel(ctx, cancelCookie)
			}
		case "schema":
			_ = c.Schema()
		case "connected":
			_ = c.Connected()
			_ = c.CurrentEndpoint()
		case "disconnect":
			c.Disconnect()
		case "connect":
			call.Err = c.Connect(ctx)
		case "close":
			c.Close()
		}
	})
	return ac
}
