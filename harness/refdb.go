package harness

// RefDB: an independent executable model of RFC 7047 §5.1-5.2 over plain
// values (DESIGN.md Appendix A). It is a pure function from (state before,
// operations, UUIDs the server reported for inserts) to (per-operation results,
// state after, accept/reject). Where the expected behaviour is not certain the
// model reports an Edge and the caller skips the comparison (counted).

import (
	"math/big"
	"encoding/json"
	"fmt"
	"github.com/ovn-org/libovsdb/simrt"
	"math"
	"sort"
	"strings"
)

type RefResult struct {
	UUID    string
	Count   int
	Rows    []RefSelRow
	HasRows bool
	Err     string // "" or an error class: "constraint violation", "timed out", "error"
	Kind    string // op kind
	Detail  string // why the model fails the operation
}

type RefSelRow struct {
	UUID    string
	HasUUID bool
	Row     Row
}

type RefOutcome struct {
	Results   []RefResult // one per executed operation (stops at the first failure)
	OpFailed  bool
	CommitErr string // "", "referential integrity violation", "constraint violation"
	After     DBState
	Edge      string // non-empty: behaviour not asserted
	Names     map[string]string
	// FinalDup reports whether the final state (before the index check) has a
	// duplicate index tuple; TransientDup whether some intermediate state had.
	FinalDup     bool
	TransientDup bool
	GCd          int
	Pruned       int
}

const zeroUUID = "00000000-0000-0000-0000-000000000000"

func defaultValue(ct *ColType) Value {
	if ct.IsMap() {
		return Value{IsMap: true}
	}
	if ct.Min == 0 {
		return Value{}
	}
	switch ct.Key.Type {
	case "integer":
		return SetOf(AInt(0))
	case "real":
		return SetOf(AReal(0))
	case "boolean":
		return SetOf(ABool(false))
	case "string":
		return SetOf(AStr(""))
	}
	return SetOf(AUUID(zeroUUID))
}

// NormalizeOps round-trips operations through JSON so that numbers are
// float64 and arrays are []any, as a receiver would see them.
func NormalizeOps(ops []Op) []Op {
	var out []Op
	if err := json.Unmarshal(mustJSON(ops), &out); err != nil {
		panic(err)
	}
	return out
}

type refTxn struct {
	sch   *Schema
	st    DBState
	names map[string]string
	out   *RefOutcome
	// undeclared: a named uuid was used that no insert of the transaction declares
	undeclared bool
}

func (x *refTxn) resolveAtom(a Atom) (Atom, error) {
	if a.T == 'u' && strings.HasPrefix(a.S, "@") {
		u, ok := x.names[a.S[1:]]
		if !ok {
			x.undeclared = true
			return a, fmt.Errorf("unknown named-uuid %s", a.S[1:])
		}
		return AUUID(u), nil
	}
	return a, nil
}

func (x *refTxn) resolve(v Value) (Value, error) {
	o := Value{IsMap: v.IsMap}
	for _, a := range v.Set {
		r, err := x.resolveAtom(a)
		if err != nil {
			return o, err
		}
		o.Set = append(o.Set, r)
	}
	for _, p := range v.Map {
		k, err := x.resolveAtom(p.K)
		if err != nil {
			return o, err
		}
		w, err := x.resolveAtom(p.V)
		if err != nil {
			return o, err
		}
		o.Map = append(o.Map, Pair{k, w})
	}
	o.norm()
	return o, nil
}

func checkType(ct *ColType, v Value) string {
	n := v.Len()
	if n < ct.Min || (ct.Max >= 0 && n > ct.Max) {
		return "cardinality"
	}
	if len(ct.Key.Enum) > 0 {
		chk := func(a Atom) bool {
			for _, e := range ct.Key.Enum {
				if e == a {
					return true
				}
			}
			return false
		}
		for _, a := range v.Set {
			if !chk(a) {
				return "enum"
			}
		}
		for _, p := range v.Map {
			if !chk(p.K) {
				return "enum"
			}
		}
	}
	return ""
}

// ---- conditions ------------------------------------------------------------------

func subset(a, b Value) bool { // every element/pair of a is in b
	if a.IsMap {
		for _, p := range a.Map {
			w, ok := b.Get(p.K)
			if !ok || w != p.V {
				return false
			}
		}
		return true
	}
	for _, e := range a.Set {
		if !b.Has(e) {
			return false
		}
	}
	return true
}

func disjoint(a, b Value) bool { // no element/pair of a is in b
	if a.IsMap {
		for _, p := range a.Map {
			if w, ok := b.Get(p.K); ok && w == p.V {
				return false
			}
		}
		return true
	}
	for _, e := range a.Set {
		if b.Has(e) {
			return false
		}
	}
	return true
}

func (x *refTxn) evalCond(t *Table, uuid string, row Row, cond any) (bool, error) {
	arr, ok := cond.([]any)
	if !ok || len(arr) != 3 {
		return false, fmt.Errorf("bad condition %v", cond)
	}
	cn, _ := arr[0].(string)
	fn, _ := arr[1].(string)
	var ct *ColType
	var cur Value
	if cn == "_uuid" {
		ct = &ColType{Key: &BaseType{Type: "uuid"}, Min: 1, Max: 1}
		cur = SetOf(AUUID(uuid))
	} else {
		c := t.Columns[cn]
		if c == nil {
			return false, fmt.Errorf("unknown column %s", cn)
		}
		ct = &c.Type
		cur = row[cn]
	}
	arg, err := ValueFromWire(ct, arr[2])
	if err != nil {
		return false, err
	}
	arg, err = x.resolve(arg)
	if err != nil {
		return false, err
	}
	if ct.IsScalar() {
		if arg.Len() != 1 || cur.Len() != 1 {
			return false, fmt.Errorf("scalar condition with non-scalar value")
		}
		a, b := cur.Set[0], arg.Set[0]
		switch fn {
		case "==", "includes":
			return a == b, nil
		case "!=", "excludes":
			return a != b, nil
		}
		if (a.T != 'i' && a.T != 'r') || len(ct.Key.Enum) > 0 {
			return false, fmt.Errorf("ordering on non-numeric column")
		}
		switch fn {
		case "<":
			return a.Less(b), nil
		case "<=":
			return a.Less(b) || a == b, nil
		case ">":
			return b.Less(a), nil
		case ">=":
			return b.Less(a) || a == b, nil
		}
		return false, fmt.Errorf("unknown function %s", fn)
	}
	switch fn {
	case "==":
		return cur.Eq(arg), nil
	case "!=":
		return !cur.Eq(arg), nil
	case "includes":
		return subset(arg, cur), nil
	case "excludes":
		return disjoint(arg, cur), nil
	}
	return false, fmt.Errorf("function %s not allowed on sets/maps", fn)
}

func (x *refTxn) match(t *Table, where any) ([]string, error) {
	conds, _ := where.([]any)
	var out []string
	us := SortedKeys(x.st[t.Name])
	for _, u := range us {
		ok := true
		for _, c := range conds {
			m, err := x.evalCond(t, u, x.st[t.Name][u], c)
			if err != nil {
				return nil, err
			}
			if !m {
				ok = false
				break
			}
		}
		if ok {
			out = append(out, u)
		}
	}
	return out, nil
}

// ---- mutations -------------------------------------------------------------------

// overflows reports whether a (op) b leaves the 64-bit integers.
func overflows(op string, a, b int64) bool {
	x, y := new(big.Int).SetInt64(a), new(big.Int).SetInt64(b)
	switch op {
	case "+=":
		x.Add(x, y)
	case "-=":
		x.Sub(x, y)
	case "*=":
		x.Mul(x, y)
	default:
		return false
	}
	return !x.IsInt64()
}

func (x *refTxn) mutate(c *Column, cur Value, mutator string, rawArg any) (Value, string, error) {
	ct := &c.Type
	switch mutator {
	case "+=", "-=", "*=", "/=", "%=":
		if ct.IsMap() || (ct.Key.Type != "integer" && ct.Key.Type != "real") || len(ct.Key.Enum) > 0 {
			return cur, "", fmt.Errorf("arithmetic on non-numeric column")
		}
		arg, err := AtomFromWire(ct.Key.Type, rawArg)
		if err != nil {
			return cur, "", err
		}
		out := Value{}
		big := false
		for _, a := range cur.Set {
			before := a.I
			if a.T == 'i' {
				switch mutator {
				case "+=":
					a.I += arg.I
				case "-=":
					a.I -= arg.I
				case "*=":
					a.I *= arg.I
				case "/=":
					if arg.I == 0 {
						return cur, "domain", nil
					}
					a.I /= arg.I
				case "%=":
					if arg.I == 0 {
						return cur, "domain", nil
					}
					a.I %= arg.I
				}
				if overflows(mutator, before, arg.I) {
					return cur, "overflow", nil // not representable in 64 bits: a definite "range error"
				}
				if a.I > 1<<53 || a.I < -(1<<53) {
					// fits 64 bits but not the harness's JSON numbers: the value
					// is kept (a later mutation may still leave the integers for
					// good) and the transaction is set aside if it ends up stored
					big = true
				}
			} else {
				switch mutator {
				case "+=":
					a.R += arg.R
				case "-=":
					a.R -= arg.R
				case "*=":
					a.R *= arg.R
				case "/=":
					if arg.R == 0 {
						return cur, "domain", nil
					}
					a.R /= arg.R
				case "%=":
					return cur, "", fmt.Errorf("%%= on real")
				}
				if math.IsInf(a.R, 0) || math.IsNaN(a.R) {
					return cur, "overflow", nil // a definite "range error"
				}
			}
			out.Set = append(out.Set, a)
		}
		n := len(out.Set)
		out.norm()
		if len(out.Set) != n {
			return cur, "dup-after-arith", nil
		}
		if big {
			return out, "range", nil
		}
		return out, "", nil
	case "insert":
		arg, err := ValueFromWire(ct, rawArg)
		if err != nil {
			return cur, "", err
		}
		arg, err = x.resolve(arg)
		if err != nil {
			return cur, "", err
		}
		out := cur.Clone()
		if ct.IsMap() {
			for _, p := range arg.Map {
				if _, ok := out.Get(p.K); !ok {
					out.Map = append(out.Map, p)
				}
			}
		} else {
			for _, a := range arg.Set {
				if !out.Has(a) {
					out.Set = append(out.Set, a)
				}
			}
		}
		out.norm()
		return out, "", nil
	case "delete":
		out := Value{IsMap: ct.IsMap()}
		if ct.IsMap() {
			// the argument is either a map (pairs must match) or a set of keys
			if arr, ok := rawArg.([]any); ok && len(arr) == 2 && arr[0] == "map" {
				arg, err := ValueFromWire(ct, rawArg)
				if err != nil {
					return cur, "", err
				}
				arg, err = x.resolve(arg)
				if err != nil {
					return cur, "", err
				}
				for _, p := range cur.Map {
					if w, ok := arg.Get(p.K); ok && w == p.V {
						continue
					}
					out.Map = append(out.Map, p)
				}
			} else {
				kt := &ColType{Key: ct.Key, Min: 0, Max: -1}
				keys, err := ValueFromWire(kt, rawArg)
				if err != nil {
					return cur, "", err
				}
				keys, err = x.resolve(keys)
				if err != nil {
					return cur, "", err
				}
				for _, p := range cur.Map {
					if keys.Has(p.K) {
						continue
					}
					out.Map = append(out.Map, p)
				}
			}
			out.norm()
			return out, "", nil
		}
		arg, err := ValueFromWire(ct, rawArg)
		if err != nil {
			return cur, "", err
		}
		arg, err = x.resolve(arg)
		if err != nil {
			return cur, "", err
		}
		for _, a := range cur.Set {
			if !arg.Has(a) {
				out.Set = append(out.Set, a)
			}
		}
		out.norm()
		return out, "", nil
	}
	return cur, "", fmt.Errorf("unknown mutator %s", mutator)
}

// ---- transaction -----------------------------------------------------------------

func (x *refTxn) dupIndex() bool {
	for _, tn := range x.sch.TableNames {
		t := x.sch.Tables[tn]
		for _, idx := range t.Indexes {
			seen := map[string]bool{}
			for _, u := range SortedKeys(x.st[tn]) {
				var parts []string
				for _, c := range idx {
					parts = append(parts, x.st[tn][u][c].String())
				}
				k := strings.Join(parts, "|")
				if seen[k] {
					return true
				}
				seen[k] = true
			}
		}
	}
	return false
}

// RefTransact runs ops on a copy of before. reported[i] is the UUID the real
// server reported for insert operation i (used when the insert carries no
// explicit uuid).
func RefTransact(sch *Schema, before DBState, ops []Op, reported map[int]string) *RefOutcome {
	simrt.Heartbeat.Add(1) // analysis is progress too (watchdog food)
	out := &RefOutcome{Names: map[string]string{}}
	x := &refTxn{sch: sch, st: before.Clone(), names: out.Names, out: out}
	for _, tn := range sch.TableNames {
		if x.st[tn] == nil {
			x.st[tn] = TableData{}
		}
	}
	detail := ""
	bigStored := false // an integer beyond 2^53 was computed (and is stored unless the transaction fails)
	fail := func(kind, class string) {
		if x.undeclared && detail == "" {
			detail = "named-uuid:undeclared"
		}
		out.Results = append(out.Results, RefResult{Kind: kind, Err: class, Detail: detail})
		out.OpFailed = true
	}
	// pass 1: names
	insertUUID := map[int]string{}
	for i, op := range ops {
		if op["op"] != "insert" {
			continue
		}
		u, _ := op["uuid"].(string)
		if u == "" {
			u = reported[i]
		}
		insertUUID[i] = u
		if n, ok := op["uuid-name"].(string); ok && n != "" {
			if prev, dup := out.Names[n]; dup {
				if prev != u {
					// two inserts claiming one name: the whole transaction is in error
					out.Results = []RefResult{{Kind: "insert", Err: "error"}}
					out.OpFailed = true
					out.Edge = ""
					out.After = before.Clone()
					out.Names["!dup"] = n
					return out
				}
			}
			out.Names[n] = u
		}
	}
	for i, op := range ops {
		kind, _ := op["op"].(string)
		tn, _ := op["table"].(string)
		t := sch.Tables[tn]
		if t == nil {
			fail(kind, "error")
			break
		}
		switch kind {
		case "insert":
			u := insertUUID[i]
			if u == "" {
				out.Edge = "insert without known uuid"
				fail(kind, "error")
				break
			}
			rowJ, _ := op["row"].(map[string]any)
			rw, _, err := RowFromWire(t, rowJ)
			if err != nil {
				fail(kind, "error")
				break
			}
			row := Row{}
			bad := ""
			for _, cn := range t.ColNames {
				c := t.Columns[cn]
				if v, ok := rw[cn]; ok {
					v, err = x.resolve(v)
					if err != nil {
						bad = "error"
						break
					}
					if ce := checkType(&c.Type, v); ce != "" {
						bad = "constraint violation"
						detail = "insert:" + ce
						break
					}
					row[cn] = v
				} else {
					row[cn] = defaultValue(&c.Type)
					if len(c.Type.Key.Enum) > 0 && c.Type.Min > 0 {
						out.Edge = "default of enum column"
					}
				}
			}
			if bad != "" {
				fail(kind, bad)
				break
			}
			if _, exists := x.st[tn][u]; exists {
				out.Edge = "insert of existing uuid"
				fail(kind, "error")
				break
			}
			x.st[tn][u] = row
			out.Results = append(out.Results, RefResult{Kind: kind, UUID: u})
		case "select":
			us, err := x.match(t, op["where"])
			if err != nil {
				fail(kind, "error")
				break
			}
			res := RefResult{Kind: kind, HasRows: true}
			cols, hasCols := op["columns"].([]any)
			for _, u := range us {
				sr := RefSelRow{UUID: u, Row: Row{}}
				if !hasCols {
					sr.HasUUID = true
					sr.Row = x.st[tn][u].Clone()
				} else {
					for _, cj := range cols {
						cn, _ := cj.(string)
						if cn == "_uuid" {
							sr.HasUUID = true
						} else if v, ok := x.st[tn][u][cn]; ok {
							sr.Row[cn] = v
						}
					}
				}
				res.Rows = append(res.Rows, sr)
			}
			out.Results = append(out.Results, res)
		case "update":
			us, err := x.match(t, op["where"])
			if err != nil {
				fail(kind, "error")
				break
			}
			rowJ, _ := op["row"].(map[string]any)
			rw, ru, err := RowFromWire(t, rowJ)
			if err != nil || ru != "" {
				fail(kind, "error")
				break
			}
			bad := ""
			newVals := Row{}
			for cn, v := range rw {
				v, err = x.resolve(v)
				if err != nil {
					bad = "error"
					break
				}
				if ce := checkType(&t.Columns[cn].Type, v); ce != "" {
					bad = "constraint violation"
					detail = "update:" + ce
					break
				}
				newVals[cn] = v
			}
			if bad == "" {
				for _, u := range us {
					for cn, v := range newVals {
						if t.Columns[cn].Immutable && !x.st[tn][u][cn].Eq(v) {
							bad = "constraint violation"
							detail = "update:immutable"
						}
					}
				}
			}
			if bad != "" {
				if len(us) == 0 && bad == "constraint violation" {
					out.Edge = "invalid update value with no matching row"
				}
				fail(kind, bad)
				break
			}
			for _, u := range us {
				for cn, v := range newVals {
					x.st[tn][u][cn] = v
				}
			}
			out.Results = append(out.Results, RefResult{Kind: kind, Count: len(us)})
		case "mutate":
			us, err := x.match(t, op["where"])
			if err != nil {
				fail(kind, "error")
				break
			}
			muts, _ := op["mutations"].([]any)
			bad := ""
			staged := map[string]Row{}
			for _, u := range us {
				staged[u] = x.st[tn][u].Clone()
			}
			// validate mutation shapes even when no row matches
			for _, mj := range muts {
				m, ok := mj.([]any)
				if !ok || len(m) != 3 {
					bad = "error"
					break
				}
				cn, _ := m[0].(string)
				mu, _ := m[1].(string)
				c := t.Columns[cn]
				if c == nil {
					bad = "error"
					break
				}
				if c.Immutable {
					bad = "constraint violation"
					break
				}
				if len(us) == 0 {
					if _, edge, err := x.mutate(c, defaultValue(&c.Type), mu, m[2]); err != nil {
						bad = "error"
					} else if edge == "domain" {
						out.Edge = "mutate domain error with no matching row"
					}
				}
				for _, u := range us {
					nv, edge, err := x.mutate(c, staged[u][cn], mu, m[2])
					if err != nil {
						bad = "error"
						break
					}
					if edge == "overflow" {
						bad = "range error"
						detail = "mutate:range"
						break
					}
					if edge == "range" {
						// see mutate: decided when the transaction is over
						bigStored = true
					} else if edge != "" {
						out.Edge = "mutate " + edge
						bad = "error"
						break
					}
					if ce := checkType(&c.Type, nv); ce != "" {
						// the value a mutation leaves behind must conform to the column
						// (number of elements, enum), mutation by mutation
						bad = "constraint violation"
						detail = "mutate:" + ce
						break
					}
					staged[u][cn] = nv
				}
				if bad != "" {
					break
				}
			}
			if bad != "" {
				fail(kind, bad)
				break
			}
			for u, r := range staged {
				x.st[tn][u] = r
			}
			out.Results = append(out.Results, RefResult{Kind: kind, Count: len(us)})
		case "delete":
			us, err := x.match(t, op["where"])
			if err != nil {
				fail(kind, "error")
				break
			}
			for _, u := range us {
				delete(x.st[tn], u)
			}
			out.Results = append(out.Results, RefResult{Kind: kind, Count: len(us)})
		case "wait":
			if to, ok := op["timeout"].(float64); !ok || to != 0 {
				out.Edge = "wait with non-zero timeout"
			}
			us, err := x.match(t, op["where"])
			if err != nil {
				fail(kind, "error")
				break
			}
			cols, _ := op["columns"].([]any)
			rowsJ, _ := op["rows"].([]any)
			until, _ := op["until"].(string)
			proj := func(r Row) string {
				o := Row{}
				for _, cj := range cols {
					cn, _ := cj.(string)
					if v, ok := r[cn]; ok {
						o[cn] = v
					}
				}
				return o.String()
			}
			var have, want []string
			for _, u := range us {
				have = append(have, proj(x.st[tn][u]))
			}
			bad := false
			for _, rj := range rowsJ {
				rw, _, err := RowFromWire(t, rj)
				if err != nil {
					bad = true
					break
				}
				for cn := range rw {
					found := false
					for _, cj := range cols {
						if cj == cn {
							found = true
						}
					}
					if !found {
						out.Edge = "wait row with column outside columns"
					}
				}
				// columns listed but absent from the given row take... unspecified: edge
				for _, cj := range cols {
					if _, ok := rw[cj.(string)]; !ok {
						out.Edge = "wait row missing a listed column"
					}
				}
				want = append(want, proj(rw))
			}
			if bad {
				fail(kind, "error")
				break
			}
			sort.Strings(have)
			sort.Strings(want)
			uniq := func(s []string) []string {
				var o []string
				for i, v := range s {
					if i == 0 || v != s[i-1] {
						o = append(o, v)
					}
				}
				return o
			}
			if len(uniq(have)) != len(have) || len(uniq(want)) != len(want) {
				out.Edge = "wait with duplicate projected rows"
			}
			eq := strings.Join(uniq(have), "\n") == strings.Join(uniq(want), "\n")
			if (until == "==" && eq) || (until == "!=" && !eq) {
				out.Results = append(out.Results, RefResult{Kind: kind})
			} else {
				detail = "wait:timed-out"
				fail(kind, "timed out")
			}
		default:
			out.Edge = "operation kind " + kind
			fail(kind, "error")
		}
		if out.OpFailed {
			break
		}
		if x.dupIndex() {
			out.TransientDup = true
		}
	}
	if out.OpFailed {
		out.After = before.Clone()
		return out
	}
	if bigStored && out.Edge == "" {
		out.Edge = "mutate range"
	}
	// ---- commit ----
	preGCStrongOK := x.strongOK()
	// garbage collection (transitive)
	for {
		refd := x.stronglyReferenced()
		n := 0
		for _, tn := range sch.TableNames {
			if sch.IsRoot(tn) {
				continue
			}
			for _, u := range SortedKeys(x.st[tn]) {
				if !refd[tn+"/"+u] {
					delete(x.st[tn], u)
					n++
				}
			}
		}
		out.GCd += n
		if n == 0 {
			break
		}
	}
	postGCStrongOK := x.strongOK()
	if preGCStrongOK != postGCStrongOK {
		out.Edge = "strong reference check differs before/after garbage collection"
	}
	if !postGCStrongOK {
		out.CommitErr = "referential integrity violation"
		out.After = before.Clone()
		return out
	}
	// weak reference pruning
	for _, tn := range sch.TableNames {
		t := sch.Tables[tn]
		for _, u := range SortedKeys(x.st[tn]) {
			for _, cn := range t.ColNames {
				c := t.Columns[cn]
				kw := c.Type.Key.RefTable != "" && c.Type.Key.RefType == "weak"
				vw := c.Type.Val != nil && c.Type.Val.RefTable != "" && c.Type.Val.RefType == "weak"
				if !kw && !vw {
					continue
				}
				cur := x.st[tn][u][cn]
				nv := Value{IsMap: cur.IsMap}
				for _, a := range cur.Set {
					if _, ok := x.st[c.Type.Key.RefTable][a.S]; ok {
						nv.Set = append(nv.Set, a)
					}
				}
				for _, p := range cur.Map {
					if kw {
						if _, ok := x.st[c.Type.Key.RefTable][p.K.S]; !ok {
							continue
						}
					}
					if vw {
						if _, ok := x.st[c.Type.Val.RefTable][p.V.S]; !ok {
							continue
						}
					}
					nv.Map = append(nv.Map, p)
				}
				if nv.Len() != cur.Len() {
					out.Pruned += cur.Len() - nv.Len()
					if nv.Len() < c.Type.Min {
						out.CommitErr = "constraint violation"
						out.After = before.Clone()
						return out
					}
					x.st[tn][u][cn] = nv
				}
			}
		}
	}
	out.FinalDup = x.dupIndex()
	if out.FinalDup {
		out.CommitErr = "constraint violation"
		out.After = before.Clone()
		return out
	}
	out.After = x.st
	return out
}

func (x *refTxn) eachStrong(f func(fromT, fromU, col, toT, toU string)) {
	for _, tn := range x.sch.TableNames {
		t := x.sch.Tables[tn]
		for _, u := range SortedKeys(x.st[tn]) {
			for _, cn := range t.ColNames {
				c := t.Columns[cn]
				ks := c.Type.Key.RefTable != "" && c.Type.Key.RefType != "weak"
				vs := c.Type.Val != nil && c.Type.Val.RefTable != "" && c.Type.Val.RefType != "weak"
				if !ks && !vs {
					continue
				}
				v := x.st[tn][u][cn]
				for _, a := range v.Set {
					f(tn, u, cn, c.Type.Key.RefTable, a.S)
				}
				for _, p := range v.Map {
					if ks {
						f(tn, u, cn, c.Type.Key.RefTable, p.K.S)
					}
					if vs {
						f(tn, u, cn, c.Type.Val.RefTable, p.V.S)
					}
				}
			}
		}
	}
}

func (x *refTxn) strongOK() bool {
	ok := true
	x.eachStrong(func(_, _, _, toT, toU string) {
		if _, has := x.st[toT][toU]; !has {
			ok = false
		}
	})
	return ok
}

// stronglyReferenced: rows referenced by a strong reference from an existing
// row other than themselves... (a self reference does keep a row alive in
// ovsdb-server? uncertain: flagged as edge by the caller through selfRefOnly).
func (x *refTxn) stronglyReferenced() map[string]bool {
	refd := map[string]bool{}
	x.eachStrong(func(fromT, fromU, _, toT, toU string) {
		if fromT == toT && fromU == toU {
			x.out.Edge = "row strongly references itself"
		}
		refd[toT+"/"+toU] = true
	})
	return refd
}
