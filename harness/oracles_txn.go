package harness

import (
	"encoding/json"
	"fmt"
	"os"
	"regexp"
	"sort"
	"strings"

	"github.com/google/uuid"
	"github.com/ovn-org/libovsdb/database/inmemory"
	"github.com/ovn-org/libovsdb/model"
	"github.com/ovn-org/libovsdb/ovsdb"
)

// ---- C02 all-or-nothing ----------------------------------------------------------

func (s *s1) checkC02(i int, out *TxnOutcome) {
	e := s.e
	if !out.Failed {
		return
	}
	e.Probes["c02_failed_txn_checked"]++
	if out.Before.Rows() > 0 {
		e.Probes["checked_nonempty"]++
	}
	if out.OpFailAt > 0 {
		e.Probes["c02_fail_after_successful_ops"]++
	}
	if d := DiffStates(out.Before, out.After, e.Sch.TableNames, nil); d != "" {
		e.Violate("C02.rows-changed", "transaction %d failed (%s) but the database changed:\n%s\nops: %s", i, s.failDesc(out), d, shortOps(out.Ops))
		return
	}
	if d := diffRefs(out.RefsBef, out.RefsAft); d != "" {
		e.Violate("C02.refs-changed", "transaction %d failed (%s) but the reference index changed:\n%s\nops: %s", i, s.failDesc(out), d, shortOps(out.Ops))
		return
	}
	if out.Commits != 0 {
		e.Violate("C02.committed", "transaction %d failed (%s) but Commit was called %d time(s)", i, s.failDesc(out), out.Commits)
		return
	}
	for _, o := range s.obs {
		if len(o.peer.Notes) != o.seen {
			n := o.peer.Notes[o.seen]
			e.Violate("C02.notified", "transaction %d failed (%s) but monitor %s was sent %s %s", i, s.failDesc(out), o.spec.Owner, n.Method, joinRaw(n.Params))
			return
		}
	}
	// hidden state: the schema indexes of the database must still describe exactly the stored rows
	// ("a later transaction behaves as if the failed one had never been submitted")
	checkServerIndexes(e, s.srv, out.After, "C02.hidden-index-state")
	if e.Stopped() {
		return
	}
	// reply shape
	if out.RPCError != "" {
		// an RPC-level error for a syntactically valid transact is not the shape the statement describes
		e.Violate("C02.reply-shape", "transaction %d: transact answered with an RPC error instead of results: %s\nops: %s", i, out.RPCError, shortOps(out.Ops))
		return
	}
	n := len(out.Ops)
	if out.OpFailAt >= 0 {
		k := out.OpFailAt
		for j := 0; j < k; j++ {
			if out.Res[j].Null || out.Res[j].Err != "" {
				e.Violate("C02.reply-shape", "transaction %d: result %d precedes the failing operation %d but is null/error: %s", i, j, k, out.Call.Result)
				return
			}
		}
		for j := k + 1; j < len(out.Res); j++ {
			if !out.Res[j].Null {
				e.Violate("C02.reply-shape", "transaction %d: result %d follows the failing operation %d but is not null: %s", i, j, k, out.Call.Result)
				return
			}
		}
		if len(out.Res) > n {
			e.Violate("C02.reply-shape", "transaction %d: %d results for %d operations although operation %d failed: %s", i, len(out.Res), n, k, out.Call.Result)
			return
		}
	} else {
		if len(out.Res) != n+1 {
			e.Violate("C02.reply-shape", "transaction %d: commit-time rejection must give %d results, got %d: %s", i, n+1, len(out.Res), out.Call.Result)
			return
		}
		for j := 0; j < n; j++ {
			if out.Res[j].Null || out.Res[j].Err != "" {
				e.Violate("C02.reply-shape", "transaction %d: commit-time rejection but result %d is null/error: %s", i, j, out.Call.Result)
				return
			}
		}
	}
}

func (s *s1) failDesc(out *TxnOutcome) string {
	if out.RPCError != "" {
		return "rpc error: " + out.RPCError
	}
	if out.OpFailAt >= 0 {
		return fmt.Sprintf("operation %d: %s %s", out.OpFailAt, out.Res[out.OpFailAt].Err, out.Res[out.OpFailAt].Details)
	}
	return "commit: " + out.CommitErr
}

func joinRaw(ps []json.RawMessage) string {
	var parts []string
	for _, p := range ps {
		parts = append(parts, string(p))
	}
	s := strings.Join(parts, " ")
	if len(s) > 600 {
		s = s[:600] + "..."
	}
	return s
}

func diffRefs(a, b map[string]string) string {
	var out []string
	for k, v := range a {
		if b[k] != v {
			out = append(out, fmt.Sprintf("%s: %q vs %q", k, v, b[k]))
		}
	}
	for k, v := range b {
		if _, ok := a[k]; !ok {
			out = append(out, fmt.Sprintf("%s: (absent) vs %q", k, v))
		}
	}
	sort.Strings(out)
	if len(out) > 8 {
		out = out[:8]
	}
	return strings.Join(out, "\n")
}

// ---- C03 RFC 7047 refinement -------------------------------------------------------

func (s *s1) refOutcome(out *TxnOutcome) *RefOutcome {
	return RefTransact(s.e.Sch, out.Before, out.Ops, out.reported())
}

func (s *s1) checkC03(i int, out *TxnOutcome) {
	e := s.e
	if out.Failed {
		// the statement speaks of accepted transactions only; how often the
		// database refuses what the model accepts is measured, not judged
		if os.Getenv("VERIF_PROBE_REJECTS") != "" {
			if ref := s.refOutcome(out); ref.Edge == "" && !ref.OpFailed && ref.CommitErr == "" {
				d := s.failDesc(out)
				if len(d) > 90 {
					d = d[:90]
				}
				e.Probes["c03_refused_but_model_accepts:"+d]++
			}
		}
		return
	}
	ref := s.refOutcome(out)
	if ref.Edge != "" {
		e.Probes["c03_edge_skipped"]++
		e.Probes["edge:"+ref.Edge]++
		if strings.Contains(ref.Edge, "range") {
			// the database now holds an integer beyond 2^53: it fits 64 bits, but the
			// harness's own JSON handling (float64) cannot represent it faithfully
			e.Abort("database holds an integer beyond 2^53 (outside the harness's reach)")
		}
		return
	}
	e.Probes["c03_accepted_txn_compared"]++
	if out.Before.Rows() > 0 {
		e.Probes["checked_nonempty"]++
	}
	if !ref.OpFailed && ref.CommitErr != "" {
		e.Probes["c03_commit_rule_disagreement_left_to_C04_C06"]++
		return
	}
	if ref.OpFailed {
		why := ref.CommitErr
		key := "commit:" + ref.CommitErr
		if ref.OpFailed {
			last := ref.Results[len(ref.Results)-1]
			why = fmt.Sprintf("operation %d must fail (%s %s)", len(ref.Results)-1, last.Err, last.Detail)
			key = last.Detail
			if key == "" {
				key = last.Kind + ":" + last.Err
			}
		}
		e.ViolateK("C03.accepts-invalid", key, "transaction %d was accepted but RFC 7047 prescribes: %s\nops: %s\nreply: %s", i, why, shortOps(out.Ops), out.Call.Result)
		if key == "mutate:range" && !e.Stopped() {
			// a listed finding: the database now holds a wrapped integer or a non-finite
			// real (and may have lost the row altogether); nothing more can be learnt
			e.Abort("database holds an out-of-range value (known finding earlier in this run)")
		}
		return
	}
	if len(out.Res) != len(out.Ops) {
		e.Violate("C03.result-count", "transaction %d: %d results for %d operations: %s", i, len(out.Res), len(out.Ops), out.Call.Result)
		return
	}
	for k, op := range out.Ops {
		if msg := s.compareResult(op, out.Res[k], ref.Results[k]); msg != "" {
			key := condKey(e.Sch, op)
			if strings.HasPrefix(msg, "select returned extra columns") {
				key = "columns-ignored"
			}
			oracle := "C03.result:" + fmt.Sprint(op["op"])
			if strings.HasPrefix(key, "cond:") && key != "cond:none" && key != "cond:scalar-only" {
				oracle = "C03.selection" // which rows a condition on a set/map/optional column selects
			}
			e.ViolateK(oracle, key, "transaction %d operation %d (%s): %s\nops: %s\nreply: %s", i, k, mustJSON(op), msg, shortOps(out.Ops), out.Call.Result)
			return
		}
	}
	if ref.GCd > 0 || ref.Pruned > 0 {
		e.Probes["c03_contents_with_gc_or_prune_left_to_C04"]++
		return
	}
	if d := DiffStates(ref.After, out.After, e.Sch.TableNames, nil); d != "" {
		e.ViolateK("C03.contents", contentsKey(e.Sch, out.Ops, ref.After, out.After), "transaction %d: database contents differ from the RFC 7047 model (model vs database):\n%s\nops: %s\nbefore:\n%s", i, d, shortOps(out.Ops), trimStr(out.Before.String(), 3000))
		return
	}
}

// anyStrings reads a JSON-ish list of strings ([]string or []any).
func anyStrings(v any) []string {
	switch l := v.(type) {
	case []string:
		return l
	case []any:
		var out []string
		for _, x := range l {
			if s, ok := x.(string); ok {
				out = append(out, s)
			}
		}
		return out
	}
	return nil
}

func trimStr(s string, n int) string {
	if len(s) > n {
		return s[:n] + "..."
	}
	return s
}

func (s *s1) compareResult(op Op, act ActRes, ref RefResult) string {
	e := s.e
	if act.Null {
		return "result is null"
	}
	switch op["op"] {
	case "insert":
		if act.UUID != ref.UUID {
			return fmt.Sprintf("insert reports uuid %q, expected %q", act.UUID, ref.UUID)
		}
	case "update", "mutate", "delete":
		// a count member that is absent is read as 0 (lenient: the library
		// omits zero counts; a decoding client sees 0 either way)
		if act.Count != ref.Count {
			return fmt.Sprintf("count %d (present=%v), expected %d", act.Count, act.HasCnt, ref.Count)
		}
	case "select":
		t := e.Sch.Tables[op["table"].(string)]
		var have, want []string
		_, hasCols := op["columns"]
		asked := map[string]bool{}
		uuidAsked := !hasCols
		for _, c := range anyStrings(op["columns"]) {
			asked[c] = true
			if c == "_uuid" {
				uuidAsked = true
			}
		}
		extra := false
		byU := map[string]Row{}
		var anon []Row // rows returned without their uuid
		for _, rj := range act.Rows {
			r, u, err := RowFromWire(t, rj)
			if err != nil {
				return "undecodable select row: " + err.Error()
			}
			if u == "" {
				if uuidAsked {
					return fmt.Sprintf("select returned a row without the _uuid it was asked for: %s", r.String())
				}
				anon = append(anon, r)
			} else {
				byU[u] = r
				if !uuidAsked {
					extra = true
				}
			}
			if hasCols {
				for c := range r {
					if !asked[c] {
						extra = true
					}
				}
			}
			have = append(have, "uuid="+u+" "+r.String())
		}
		sort.Strings(have)
		// a column left out of a returned row is read as holding its default
		// (empty) value; rows are matched by uuid when they carry one and by
		// content when _uuid was not asked for
		canon := func(r Row, cols []string) string {
			o := Row{}
			for _, c := range cols {
				if v, ok := r[c]; ok {
					o[c] = v
				} else {
					o[c] = omittedValue(&t.Columns[c].Type)
				}
			}
			return o.String()
		}
		var haveC, wantC []string
		for _, r := range ref.Rows {
			cols := SortedKeys(r.Row)
			want = append(want, "uuid="+r.UUID+" "+r.Row.String())
			wantC = append(wantC, canon(r.Row, cols))
			if a, ok := byU[r.UUID]; ok {
				haveC = append(haveC, canon(a, cols))
			}
		}
		if len(ref.Rows) > 0 {
			cols := SortedKeys(ref.Rows[0].Row)
			for _, a := range anon {
				haveC = append(haveC, canon(a, cols))
			}
		}
		sort.Strings(want)
		sort.Strings(haveC)
		sort.Strings(wantC)
		if len(act.Rows) != len(ref.Rows) || strings.Join(haveC, "\n") != strings.Join(wantC, "\n") {
			return fmt.Sprintf("select returned\n%s\nexpected\n%s", trimStr(strings.Join(have, "\n"), 1200), trimStr(strings.Join(want, "\n"), 1200))
		}
		if extra {
			return fmt.Sprintf("select returned extra columns:\n%s\nexpected\n%s", trimStr(strings.Join(have, "\n"), 800), trimStr(strings.Join(want, "\n"), 800))
		}
	case "wait":
		// success is an empty object
	}
	return ""
}

// ---- C04 referential integrity -------------------------------------------------------

// recomputeRefs derives, from the stored rows alone, the references to every
// row in the canonical form of CanonRefs.
func recomputeRefs(sch *Schema, st DBState) map[string]string {
	type key struct{ to, spec string }
	acc := map[string]map[string][]string{} // toTable/toUUID -> "From.col(k|v)->To" -> froms
	add := func(fromT, fromU, col, kv, toT, toU string) {
		k := toT + "/" + toU
		if acc[k] == nil {
			acc[k] = map[string][]string{}
		}
		sp := fmt.Sprintf("%s.%s(%s)->%s:%s", fromT, col, kv, toT, toU)
		for _, f := range acc[k][sp] {
			if f == fromU {
				return
			}
		}
		acc[k][sp] = append(acc[k][sp], fromU)
	}
	for _, tn := range sch.TableNames {
		t := sch.Tables[tn]
		for u, row := range st[tn] {
			for _, cn := range t.ColNames {
				c := t.Columns[cn]
				v := row[cn]
				if c.Type.Key.RefTable != "" {
					for _, a := range v.Set {
						add(tn, u, cn, "k", c.Type.Key.RefTable, a.S)
					}
					for _, p := range v.Map {
						add(tn, u, cn, "k", c.Type.Key.RefTable, p.K.S)
					}
				}
				if c.Type.Val != nil && c.Type.Val.RefTable != "" {
					for _, p := range v.Map {
						add(tn, u, cn, "v", c.Type.Val.RefTable, p.V.S)
					}
				}
			}
		}
	}
	out := map[string]string{}
	for tn, td := range st {
		for u := range td {
			k := tn + "/" + u
			var parts []string
			for sp, froms := range acc[k] {
				sort.Strings(froms)
				parts = append(parts, sp+"["+strings.Join(froms, ",")+"]")
			}
			sort.Strings(parts)
			out[k] = strings.Join(parts, ";")
		}
	}
	return out
}

// integrityProblems checks the three structural rules on a stored state.
func integrityProblems(sch *Schema, st DBState) []string {
	var out []string
	refd := map[string]bool{}
	for _, tn := range sch.TableNames {
		t := sch.Tables[tn]
		for u, row := range st[tn] {
			for _, cn := range t.ColNames {
				c := t.Columns[cn]
				v := row[cn]
				chk := func(b *BaseType, id string) {
					if b == nil || b.RefTable == "" {
						return
					}
					_, exists := st[b.RefTable][id]
					if b.RefType == "weak" {
						if !exists {
							out = append(out, fmt.Sprintf("weak reference %s/%s.%s -> missing %s/%s", tn, u, cn, b.RefTable, id))
						}
						return
					}
					if !exists {
						out = append(out, fmt.Sprintf("dangling strong reference %s/%s.%s -> missing %s/%s", tn, u, cn, b.RefTable, id))
					}
					refd[b.RefTable+"/"+id] = true
				}
				for _, a := range v.Set {
					chk(c.Type.Key, a.S)
				}
				for _, p := range v.Map {
					chk(c.Type.Key, p.K.S)
					chk(c.Type.Val, p.V.S)
				}
			}
		}
	}
	for _, tn := range sch.TableNames {
		if sch.IsRoot(tn) {
			continue
		}
		for u := range st[tn] {
			if !refd[tn+"/"+u] {
				out = append(out, fmt.Sprintf("row %s/%s of a non-root table is not strongly referenced", tn, u))
			}
		}
	}
	sort.Strings(out)
	return out
}

// restartEquivalence: a fresh database loaded with exactly the rows stored
// before the transaction (a restart in which only the rows survive; the
// reference index is rebuilt from them) must answer the same transaction with
// the same results and end with the same rows as the long-lived database did.
func (s *s1) restartEquivalence(i int, out *TxnOutcome) {
	e := s.e
	if out.RPCError != "" {
		return
	}
	for _, op := range out.Ops {
		if op["op"] == "insert" {
			if u, _ := op["uuid"].(string); u == "" {
				return // server-assigned uuids differ between the two databases
			}
		}
	}
	if len(integrityProblems(e.Sch, out.Before)) > 0 {
		return
	}
	var bad, key string
	ok, _ := e.Sim.Try(func() {
		priv := inmemory.NewDatabase(map[string]model.ClientDBModel{e.Sch.Name: e.CM})
		if err := priv.CreateDatabase(e.Sch.Name, e.LibSch); err != nil {
			return
		}
		if err := loadState(priv, e, out.Before); err != nil {
			e.Probes["c04_restart_load_failed"]++
			return
		}
		var lops []ovsdb.Operation
		if err := json.Unmarshal(mustJSON(out.Ops), &lops); err != nil {
			return
		}
		res, upd := priv.NewTransaction(e.Sch.Name).Transact(lops...)
		failed := false
		for _, r := range res {
			if r != nil && r.Error != "" {
				failed = true
			}
		}
		if !failed {
			if err := priv.Commit(e.Sch.Name, uuid.New(), upd); err != nil {
				return
			}
		}
		ares, err := decodeResults(mustJSON(res))
		if err != nil {
			return
		}
		// only the commit-time decision and the resulting rows are compared: what an
		// individual operation answers (e.g. a wait comparing sets) is not this property's
		opFailed := func(rs []ActRes) bool {
			for k, r := range rs {
				if r.Err != "" && k < len(out.Ops) {
					return true
				}
			}
			return false
		}
		if opFailed(out.Res) || opFailed(ares) {
			return
		}
		e.Probes["c04_restart_equivalence_checked"]++
		verdict := func(rs []ActRes) string {
			if len(rs) > len(out.Ops) {
				return errClass(rs[len(rs)-1].Err)
			}
			return "accepted"
		}
		if a, b := verdict(out.Res), verdict(ares); a != b {
			bad, key = fmt.Sprintf("commit-time decision differs: long-lived database: %s, fresh database: %s", a, b), "decision"
			return
		}
		if d := DiffStates(out.After, Snapshot(priv, e.Sch.Name, e.Sch), e.Sch.TableNames, nil); d != "" {
			bad, key = "resulting rows differ (long-lived vs fresh database):\n"+d, "rows"
		}
	})
	if ok && bad != "" {
		e.ViolateK("C04.history-dependence", key, "transaction %d: a fresh database holding the same rows behaves differently: %s\nops: %s\nbefore:\n%s", i, bad, shortOps(out.Ops), trimStr(out.Before.String(), 2500))
	}
}

func (s *s1) checkC04(i int, out *TxnOutcome) {
	e := s.e
	s.restartEquivalence(i, out)
	if e.Stopped() {
		return
	}
	// did garbage collection take part in this transaction (per the model)? The listed
	// findings KF03-KF05 need it; the same symptom without it is a different defect.
	gcTag := "direct:"
	if out.RPCError == "" {
		if r0 := s.refOutcome(out); r0.GCd > 0 {
			gcTag = "gc-chain:"
		}
	}
	if !out.Failed {
		e.Probes["c04_commit_checked"]++
		if out.After.Rows() > 0 {
			e.Probes["checked_nonempty"]++
		}
		if len(integrityProblems(e.Sch, out.Before)) > 0 || diffRefs(recomputeRefs(e.Sch, out.Before), out.RefsBef) != "" {
			// the state was already broken before this transaction (a listed finding): nothing new can be learnt
			e.Abort("database state already inconsistent before transaction (known finding earlier in this run)")
			return
		}
		if ps := integrityProblems(e.Sch, out.After); len(ps) > 0 {
			e.ViolateK("C04.integrity", gcTag+integrityKey(e.Sch, ps[0]), "after committed transaction %d: %s\nops: %s\nbefore:\n%s", i, strings.Join(ps, "; "), shortOps(out.Ops), trimStr(out.Before.String(), 3000))
			return
		}
		want := recomputeRefs(e.Sch, out.After)
		if d := diffRefs(want, out.RefsAft); d != "" {
			e.ViolateK("C04.ref-index-drift", driftKey(e.Sch, want, out.RefsAft), "after committed transaction %d the maintained reference index differs from the references present in the rows (recomputed vs index):\n%s\nops: %s\nbefore:\n%s", i, d, shortOps(out.Ops), trimStr(out.Before.String(), 2500))
			return
		}
	}
	if out.RPCError != "" {
		return
	}
	ref := s.refOutcome(out)
	if ref.Edge != "" {
		e.Probes["c04_edge_skipped"]++
		e.Probes["edge:"+ref.Edge]++
		return
	}
	if ref.GCd > 0 {
		e.Probes["gc_rows"] += ref.GCd
		if ref.GCd >= 2 {
			e.Probes["gc_chain_ge2"]++
		}
	}
	if ref.Pruned > 0 {
		e.Probes["weak_pruned"] += ref.Pruned
	}
	if ref.OpFailed || out.OpFailAt >= 0 {
		return // decided before commit time: not this property's concern
	}
	switch {
	case ref.CommitErr == "referential integrity violation" && !out.Failed:
		e.Violate("C04.accepts-dangling", "transaction %d leaves a dangling strong reference (or deletes a referenced row) but was accepted\nops: %s\nbefore:\n%s", i, shortOps(out.Ops), trimStr(out.Before.String(), 3000))
	case ref.CommitErr == "constraint violation" && !ref.FinalDup && !out.Failed:
		e.ViolateK("C04.accepts-weak-min", gcTag, "transaction %d empties a weak-reference column below its minimum but was accepted\nops: %s", i, shortOps(out.Ops))
	case ref.CommitErr == "" && out.Failed && errClass(out.CommitErr) == "referential integrity violation":
		e.Violate("C04.rejects-valid", "transaction %d was rejected with %q but its final state satisfies referential integrity\nops: %s\nbefore:\n%s", i, out.CommitErr, shortOps(out.Ops), trimStr(out.Before.String(), 3000))
	case ref.CommitErr != "" && out.Failed:
		e.Probes["c04_rejection_agreed"]++
	}
	if !out.Failed && ref.CommitErr == "" {
		// accepted by both: garbage collection and pruning must have produced the same rows
		if d := DiffStates(ref.After, out.After, e.Sch.TableNames, refColumns(e.Sch)); d != "" {
			if rowSetsDiffer(ref.After, out.After) {
				e.ViolateK("C04.gc-prune-result", gcTag, "transaction %d: set of surviving rows / reference columns differs from the model (model vs database):\n%s\nops: %s", i, d, shortOps(out.Ops))
			}
		}
	}
}

func refColumns(sch *Schema) map[string][]string {
	o := map[string][]string{}
	for tn, t := range sch.Tables {
		o[tn] = []string{}
		for _, cn := range t.ColNames {
			c := t.Columns[cn]
			if c.Type.Key.RefTable != "" || (c.Type.Val != nil && c.Type.Val.RefTable != "") {
				o[tn] = append(o[tn], cn)
			}
		}
	}
	return o
}

func rowSetsDiffer(a, b DBState) bool {
	for t := range a {
		if len(a[t]) != len(b[t]) {
			return true
		}
		for u := range a[t] {
			if _, ok := b[t][u]; !ok {
				return true
			}
		}
	}
	return false
}

// ---- C06 unique indexes ---------------------------------------------------------------

func dupIndexTuples(sch *Schema, st DBState) []string {
	var out []string
	for _, tn := range sch.TableNames {
		t := sch.Tables[tn]
		for _, idx := range t.Indexes {
			seen := map[string]string{}
			for _, u := range SortedKeys(st[tn]) {
				var parts []string
				for _, c := range idx {
					parts = append(parts, st[tn][u][c].String())
				}
				k := strings.Join(parts, "|")
				if prev, ok := seen[k]; ok {
					out = append(out, fmt.Sprintf("%s index %v: rows %s and %s both hold %s", tn, idx, prev, u, k))
				}
				seen[k] = u
			}
		}
	}
	return out
}

func (s *s1) checkC06(i int, out *TxnOutcome) {
	e := s.e
	if !out.Failed {
		e.Probes["c06_commit_checked"]++
		if out.After.Rows() > 0 {
			e.Probes["checked_nonempty"]++
		}
		if len(dupIndexTuples(e.Sch, out.Before)) > 0 {
			e.Abort("duplicate index tuple already stored before this transaction (known finding earlier in this run)")
			return
		}
		if d := dupIndexTuples(e.Sch, out.After); len(d) > 0 {
			e.ViolateK("C06.duplicate-stored", s.dupKey(out), "after committed transaction %d: %s\nops: %s\nbefore:\n%s", i, strings.Join(d, "; "), shortOps(out.Ops), trimStr(out.Before.String(), 3000))
			return
		}
	}
	if out.RPCError != "" || out.OpFailAt >= 0 {
		return
	}
	ref := s.refOutcome(out)
	if ref.Edge != "" || ref.OpFailed {
		e.Probes["c06_edge_skipped"]++
		return
	}
	if ref.TransientDup && !ref.FinalDup {
		e.Probes["c06_transient_dup"]++
	}
	if ref.FinalDup {
		e.Probes["c06_final_dup"]++
	}
	switch {
	case ref.FinalDup && !out.Failed:
		e.ViolateK("C06.accepts-duplicate", s.dupKey(out), "transaction %d ends with a duplicate index tuple but was accepted\nops: %s", i, shortOps(out.Ops))
	case ref.CommitErr == "" && out.Failed && errClass(out.CommitErr) == "constraint violation" && strings.Contains(out.Res[len(out.Res)-1].Details, "index"):
		e.Violate("C06.rejects-transient", "transaction %d was rejected with %q (%s) but its final state has no duplicate index tuple (transient duplicate: %v)\nops: %s\nbefore:\n%s", i, out.CommitErr, out.Res[len(out.Res)-1].Details, ref.TransientDup, shortOps(out.Ops), trimStr(out.Before.String(), 3000))
	case ref.FinalDup && out.Failed && errClass(out.CommitErr) != "constraint violation":
		e.Violate("C06.wrong-error", "transaction %d ends with a duplicate index tuple and was rejected with %q instead of a constraint violation", i, out.CommitErr)
	}
}

// ---- C07 / C11 notifications ------------------------------------------------------------

func methodFor(m string) string {
	switch m {
	case "monitor":
		return "update"
	case "monitor_cond":
		return "update2"
	}
	return "update3"
}

func (s *s1) checkC07(i int, out *TxnOutcome, strict bool) {
	e := s.e
	if len(integrityProblems(e.Sch, out.After)) > 0 || len(integrityProblems(e.Sch, out.Before)) > 0 {
		// the database holds a dangling reference (a listed C04 finding): what it
		// stores and what it announces cannot both be right
		e.Abort("database violates referential integrity: C04's concern")
		return
	}
	for _, o := range s.obs {
		notes := o.peer.Notes[o.seen:]
		var ups []*RawNote
		for _, n := range notes {
			if n.Method == "echo" {
				continue
			}
			ups = append(ups, n)
		}
		pb, pa := o.req.Project(out.Before), o.req.Project(out.After)
		exp := o.req.Expected(out.Before, out.After)
		e.Probes["c07_observer_txn_checked"]++
		if len(exp) > 0 {
			e.Probes["checked_nonempty"]++
		}
		if out.Failed {
			continue // C02's concern
		}
		if len(exp) == 0 {
			if len(ups) != 0 && DiffStates(out.Before, out.After, e.Sch.TableNames, nil) != "" && s.onlyEmptyModifies(o, ups) && !(strict && s.mentionsUnchangedRow(o, ups, out)) {
				// the transaction only changed what this monitor did not select, and it is sent
				// empty modify entries (update2) or identical old/new rows (update) all the same
				e.ViolateK("C07.spurious", "unselected-change", "transaction %d only changed columns monitor %s (%s) did not select but it was sent %s %s\nops: %s", i, o.spec.Owner, o.spec.Method, ups[0].Method, joinRaw(ups[0].Params), shortOps(out.Ops))
				return
			}
			if len(ups) != 0 && strict && s.onlyEmptyModifies(o, ups) {
				e.ViolateK("C11.noop-reported", "empty-modify", "transaction %d leaves a row exactly as it began but monitor %s (%s) was sent %s %s\nops: %s", i, o.spec.Owner, o.spec.Method, ups[0].Method, joinRaw(ups[0].Params), shortOps(out.Ops))
				return
			}
			if len(ups) != 0 {
				e.Violate("C07.spurious", "transaction %d made no selected change for monitor %s (%s) but it was sent %s %s\nops: %s", i, o.spec.Owner, o.spec.Method, ups[0].Method, joinRaw(ups[0].Params), shortOps(out.Ops))
				return
			}
			e.Probes["c07_no_effect_no_frame"]++
			continue
		}
		if len(ups) != 1 {
			e.Violate("C07.count", "transaction %d changed %d monitored row(s) for monitor %s (%s) but %d notifications were sent (want exactly 1)\nexpected: %s\nops: %s", i, len(exp), o.spec.Owner, o.spec.Method, len(ups), descChanges(exp), shortOps(out.Ops))
			return
		}
		n := ups[0]
		v2 := o.spec.Method != "monitor"
		if n.Method != methodFor(o.spec.Method) {
			// a v1 monitor must be notified with "update"; update2 for a
			// monitor_cond_since monitor carries the same encoding and is tolerated
			if !(o.spec.Method == "monitor_cond_since" && n.Method == "update2") {
				e.Violate("C07.method", "monitor %s was established with %q but is notified with method %q: %s", o.spec.Owner, o.spec.Method, n.Method, joinRaw(n.Params))
				return
			}
		}
		body := n.Params[len(n.Params)-1]
		var cookie string
		if err := json.Unmarshal(n.Params[0], &cookie); err != nil || cookie != o.spec.Owner {
			e.Violate("C07.cookie", "notification for monitor %s carries cookie %s", o.spec.Owner, n.Params[0])
			return
		}
		d, err := DecodeTableUpdates(e.Sch, body, v2)
		if err != nil {
			e.Violate("C07.decode", "notification for monitor %s (%s) cannot be decoded: %v", o.spec.Owner, o.spec.Method, err)
			return
		}
		// (b) only selected tables / columns / kinds; every row and column mentioned changed
		expBy := map[string]RowChange{}
		for _, c := range exp {
			expBy[c.Table+"/"+c.UUID] = c
		}
		for _, r := range d.Rows {
			mt := o.req.Tables[r.Table]
			if mt == nil {
				e.Violate("C07.unselected-table", "monitor %s did not select table %s but was told about %s/%s", o.spec.Owner, r.Table, r.Table, r.UUID)
				return
			}
			colOK := map[string]bool{}
			for _, c := range mt.Columns {
				colOK[c] = true
			}
			for _, row := range []Row{r.Old, r.New, r.Insert, r.Modify, r.Delete, r.Initial} {
				for c := range row {
					if !colOK[c] {
						e.Violate("C07.unselected-column", "monitor %s did not select column %s.%s but the notification carries it: %s", o.spec.Owner, r.Table, c, body)
						return
					}
				}
			}
			ec, ok := expBy[r.Table+"/"+r.UUID]
			kind := rowKind(r, v2)
			if !ok {
				// tolerated only if it is an empty modify for a row whose monitored columns did not change
				_, existed := pb[r.Table][r.UUID]
				_, exists := pa[r.Table][r.UUID]
				fullSame := out.Before[r.Table][r.UUID].String() == out.After[r.Table][r.UUID].String()
				if kind == "modify" && existed && exists && len(r.Modify) == 0 && (v2 || rowsEqualOn(r.Old, r.New)) && !(strict && fullSame) {
					e.ViolateK("C07.unchanged-row", "unselected-change", "monitor %s was told about %s/%s with an empty modification: the row only changed in columns the monitor did not select\nnotification: %s\nops: %s", o.spec.Owner, r.Table, r.UUID, body, shortOps(out.Ops))
					return
				}
				if strict && fullSame {
					e.ViolateK("C11.noop-reported", "empty-"+kind, "monitor %s was told about %s/%s (%s) although the row ends the transaction exactly as it began\nnotification: %s\nops: %s", o.spec.Owner, r.Table, r.UUID, kind, body, shortOps(out.Ops))
					return
				}
				e.Violate("C07.unchanged-row", "monitor %s was told about %s/%s (%s) which did not change in a selected way\nnotification: %s\nops: %s", o.spec.Owner, r.Table, r.UUID, kind, body, shortOps(out.Ops))
				return
			}
			if kind != ec.Kind {
				e.Violate("C07.kind", "monitor %s: %s/%s reported as %s, expected %s\nnotification: %s\nops: %s", o.spec.Owner, r.Table, r.UUID, kind, ec.Kind, body, shortOps(out.Ops))
				return
			}
			if ec.Kind == "modify" {
				ch := map[string]bool{}
				for _, c := range ec.Changed {
					ch[c] = true
				}
				if v2 {
					for c := range r.Modify {
						if !ch[c] {
							e.Violate("C07.unchanged-column", "monitor %s: modify of %s/%s mentions column %s which did not change\nnotification: %s\nops: %s", o.spec.Owner, r.Table, r.UUID, c, body, shortOps(out.Ops))
							return
						}
					}
				} else {
					for c, ov := range r.Old {
						if !ov.Eq(ec.Old[c]) {
							e.Violate("C07.old-value", "monitor %s: update of %s/%s reports old %s=%s but the row held %s before the transaction\nops: %s", o.spec.Owner, r.Table, r.UUID, c, ov, ec.Old[c], shortOps(out.Ops))
							return
						}
					}
					for _, c := range ec.Changed {
						if _, ok := r.Old[c]; !ok {
							if ct := &e.Sch.Tables[r.Table].Columns[c].Type; ec.Old[c].Eq(defaultValue(ct)) || ec.Old[c].Eq(omittedValue(ct)) {
								continue // a column that held its default (or no) value may be left out of a row
							}
							e.Violate("C07.old-missing", "monitor %s: update of %s/%s does not report the old value of changed column %s\nnotification: %s", o.spec.Owner, r.Table, r.UUID, c, body)
							return
						}
					}
				}
			}
			if ec.Kind == "delete" && !v2 {
				for c, ov := range r.Old {
					if !ov.Eq(ec.Old[c]) {
						e.Violate("C07.old-value", "monitor %s: delete of %s/%s reports old %s=%s but the row held %s", o.spec.Owner, r.Table, r.UUID, c, ov, ec.Old[c])
						return
					}
				}
			}
		}
		// every expected change is reported
		got := map[string]bool{}
		for _, r := range d.Rows {
			got[r.Table+"/"+r.UUID] = true
		}
		for k, c := range expBy {
			if !got[k] {
				e.Violate("C07.missing-row", "monitor %s was not told about %s of %s\nnotification: %s\nops: %s", o.spec.Owner, c.Kind, k, body, shortOps(out.Ops))
				return
			}
		}
		// (a) pre-state + notification = post-state
		if o.req.AllKinds() {
			rep := pb.Clone()
			if err := o.req.Apply(e.Sch, rep, d); err != nil {
				e.Violate("C07.apply", "notification for monitor %s (%s) cannot be applied to the pre-transaction state: %v\nnotification: %s\nops: %s", o.spec.Owner, o.spec.Method, err, body, shortOps(out.Ops))
				return
			}
			if df := DiffStates(pa, rep, o.req.TableNames(), o.req.ColMap()); df != "" {
				e.Violate("C07.equation", "monitor %s (%s): pre-state + notification != post-state (database vs replica):\n%s\nnotification: %s\nops: %s", o.spec.Owner, o.spec.Method, df, body, shortOps(out.Ops))
				return
			}
			e.Probes["c07_equation_checked"]++
		}
	}
}

func rowKind(r DecodedRow, v2 bool) string {
	if v2 {
		switch {
		case r.HasInsert || r.HasInitial:
			return "insert"
		case r.HasDelete:
			return "delete"
		case r.HasModify:
			return "modify"
		}
		return "none"
	}
	switch {
	case r.HasNew && !r.HasOld:
		return "insert"
	case r.HasOld && !r.HasNew:
		return "delete"
	case r.HasOld && r.HasNew:
		return "modify"
	}
	return "none"
}

func rowsEqualOn(a, b Row) bool {
	for c, v := range a {
		if w, ok := b[c]; ok && !v.Eq(w) {
			return false
		}
	}
	return true
}

func descChanges(cs []RowChange) string {
	var parts []string
	for _, c := range cs {
		parts = append(parts, fmt.Sprintf("%s %s/%s %v", c.Kind, c.Table, c.UUID, c.Changed))
	}
	return strings.Join(parts, "; ")
}

// ---- C15 named uuids ---------------------------------------------------------------------

func usesNamed(ops []Op) bool {
	return strings.Contains(string(mustJSON(ops)), "named-uuid") || strings.Contains(string(mustJSON(ops)), "uuid-name")
}

func (s *s1) checkC15(i int, out *TxnOutcome) {
	e := s.e
	if !usesNamed(out.Ops) || out.RPCError != "" {
		return
	}
	ref := s.refOutcome(out)
	if ref.Edge != "" {
		e.Probes["c15_edge_skipped"]++
		e.Probes["edge:"+ref.Edge]++
		return
	}
	e.Probes["c15_named_txn_checked"]++
	if out.Before.Rows() > 0 {
		e.Probes["checked_nonempty"]++
	}
	if _, dup := ref.Names["!dup"]; dup {
		e.Probes["c15_dup_name"]++
		if !out.Failed {
			e.Violate("C15.dup-name-accepted", "transaction %d has two inserts claiming name %q with different uuids but was accepted\nops: %s", i, ref.Names["!dup"], shortOps(out.Ops))
		}
		return
	}
	if out.Failed {
		if !ref.OpFailed && ref.CommitErr == "" {
			// the model resolves every name and accepts: a rejection here means a name was not resolved
			e.Violate("C15.rejected", "transaction %d uses named uuids, is valid per the model, but was rejected (%s)\nops: %s", i, s.failDesc(out), shortOps(out.Ops))
		}
		return
	}
	if ref.OpFailed || ref.CommitErr != "" {
		return // C03/C04's concern
	}
	if ref.GCd > 0 || ref.Pruned > 0 {
		e.Probes["c15_skipped_gc_or_prune"]++
		return // garbage collection / pruning in the same transaction is C04's concern
	}
	// the uuid reported for each insert is the uuid the row is stored under
	for k, op := range out.Ops {
		if op["op"] != "insert" {
			continue
		}
		tn := op["table"].(string)
		u := out.Res[k].UUID
		if want, _ := op["uuid"].(string); want != "" && u != want {
			e.Violate("C15.reported-uuid", "transaction %d insert %d carries uuid %s but reports %s", i, k, want, u)
			return
		}
		_, inModel := ref.After[tn][u]
		_, inDB := out.After[tn][u]
		if inModel && !inDB {
			e.Violate("C15.stored-under", "transaction %d insert %d reports uuid %s but no such row is stored in %s\nops: %s", i, k, u, tn, shortOps(out.Ops))
			return
		}
	}
	// every use of a name refers to the row inserted under it: compare all
	// uuid-typed columns (and row existence) with the model; string columns
	// must be untouched, which the full comparison covers too
	if d := DiffStates(ref.After, out.After, e.Sch.TableNames, nil); d != "" {
		e.Violate("C15.resolution", "transaction %d: stored rows differ from the model after named-uuid resolution (model vs database):\n%s\nops: %s", i, d, shortOps(out.Ops))
	}
}

func (s *s1) onlyEmptyModifies(o *observer, ups []*RawNote) bool {
	for _, n := range ups {
		d, err := DecodeTableUpdates(s.e.Sch, n.Params[len(n.Params)-1], o.spec.Method != "monitor")
		if err != nil {
			return false
		}
		for _, r := range d.Rows {
			if d.V2 {
				if !(r.HasModify && len(r.Modify) == 0 && !r.HasInsert && !r.HasDelete && !r.HasInitial) {
					return false
				}
			} else {
				if !(r.HasOld && r.HasNew && rowsEqualOn(r.Old, r.New) && rowsEqualOn(r.New, r.Old)) {
					return false
				}
			}
		}
	}
	return true
}

// colKind names the position a reference is held in: scalar, optional, set,
// map-key or map-value, plus its strength.
func colKind(sch *Schema, table, column, kv string) string {
	t := sch.Tables[table]
	if t == nil || t.Columns[column] == nil {
		return "?"
	}
	c := t.Columns[column]
	b := c.Type.Key
	pos := "set"
	switch {
	case c.Type.IsMap() && kv == "v":
		pos, b = "map-value", c.Type.Val
	case c.Type.IsMap():
		pos = "map-key"
	case c.Type.IsScalar():
		pos = "scalar"
	case c.Type.IsOptional():
		pos = "optional"
	}
	st := "strong"
	if b != nil && b.RefType == "weak" {
		st = "weak"
	}
	return pos + ":" + st
}

var reIntegrity = regexp.MustCompile(`^(dangling strong reference|weak reference) (\w+)/[^.]+\.(\w+) ->`)

func integrityKey(sch *Schema, problem string) string {
	if m := reIntegrity.FindStringSubmatch(problem); m != nil {
		t := sch.Tables[m[2]]
		kv := "k"
		if t != nil && t.Columns[m[3]] != nil && t.Columns[m[3]].Type.IsMap() && t.Columns[m[3]].Type.Key.RefTable == "" {
			kv = "v"
		}
		what := "dangling"
		if m[1] == "weak reference" {
			what = "weak-dangling"
		}
		return what + ":" + colKind(sch, m[2], m[3], kv)
	}
	if strings.Contains(problem, "not strongly referenced") {
		return "unreferenced-row"
	}
	return "other"
}

var reSpec = regexp.MustCompile(`(\w+)\.(\w+)\((k|v)\)->\w+:[0-9a-f-]+\[([^\]]*)\]`)

// driftKey classifies the first difference between the recomputed references
// (want) and the maintained index (got): "stale" = in the index only.
func driftKey(sch *Schema, want, got map[string]string) string {
	for _, k := range SortedKeys(got) {
		if want[k] == got[k] {
			continue
		}
		parse := func(s string) map[string]string {
			o := map[string]string{}
			for _, m := range reSpec.FindAllStringSubmatch(s, -1) {
				o[m[1]+"."+m[2]+"("+m[3]+")"] = m[4]
			}
			return o
		}
		w, g := parse(want[k]), parse(got[k])
		for _, sp := range SortedKeys(g) {
			if w[sp] != g[sp] {
				m := reSpec.FindStringSubmatch(sp + "->X:0[]")
				kind := "stale"
				if _, ok := w[sp]; ok {
					kind = "differs"
				}
				if m != nil {
					return kind + ":" + colKind(sch, m[1], m[2], m[3])
				}
				return kind
			}
		}
		for _, sp := range SortedKeys(w) {
			if _, ok := g[sp]; !ok {
				m := reSpec.FindStringSubmatch(sp + "->X:0[]")
				if m != nil {
					return "missing:" + colKind(sch, m[1], m[2], m[3])
				}
				return "missing"
			}
		}
	}
	return "other"
}

// dupKey says how a duplicate got past the commit-time check: "masked" when a
// row of the duplicate pair also collides, on another index of the table, with
// a row the transaction deleted or rewrote (the implementation looks at the
// first colliding index only); "plain" otherwise.
func (s *s1) dupKey(out *TxnOutcome) string {
	sch := s.e.Sch
	for _, tn := range sch.TableNames {
		t := sch.Tables[tn]
		if len(t.Indexes) < 2 {
			continue
		}
		tuple := func(r Row, idx []string) string {
			var parts []string
			for _, c := range idx {
				parts = append(parts, r[c].String())
			}
			return strings.Join(parts, "|")
		}
		for u, r := range out.After[tn] {
			for _, idx := range t.Indexes {
				for bu, br := range out.Before[tn] {
					ar, still := out.After[tn][bu]
					if bu == u || (still && tuple(ar, idx) == tuple(br, idx)) {
						continue
					}
					if tuple(br, idx) == tuple(r, idx) {
						return "masked-by-collision-with-deleted-or-rewritten-row-on-another-index"
					}
				}
			}
		}
	}
	return "plain"
}

// whereShape summarises the conditions of an operation: function / column
// kind / whether the argument is empty.
func whereShape(sch *Schema, op Op) string {
	t := sch.Tables[fmt.Sprint(op["table"])]
	conds, _ := op["where"].([]any)
	if t == nil || len(conds) == 0 {
		return "where[]"
	}
	var parts []string
	for _, cj := range conds {
		c, ok := cj.([]any)
		if !ok || len(c) != 3 {
			continue
		}
		cn, _ := c[0].(string)
		kind := "uuid"
		if col := t.Columns[cn]; col != nil {
			kind = valueKind(&col.Type)
		}
		empty := ""
		if s := string(mustJSON(c[2])); s == `["set",[]]` || s == `["map",[]]` {
			empty = "/empty"
		}
		parts = append(parts, fmt.Sprintf("%v/%s%s", c[1], kind, empty))
	}
	sort.Strings(parts)
	return "where[" + strings.Join(parts, ",") + "]"
}

func valueKind(ct *ColType) string {
	switch {
	case ct.IsMap():
		return "map"
	case ct.IsScalar():
		return "scalar"
	case ct.IsOptional():
		return "optional"
	}
	return "set"
}

// contentsKey attributes a difference in stored contents to the operations
// that touched the first differing column.
func contentsKey(sch *Schema, ops []Op, model, db DBState) string {
	for _, tn := range sch.TableNames {
		if len(model[tn]) != len(db[tn]) {
			return "row-set:" + tn
		}
		for _, u := range SortedKeys(model[tn]) {
			dr, ok := db[tn][u]
			if !ok {
				return "row-set:" + tn
			}
			for _, cn := range sch.Tables[tn].ColNames {
				if model[tn][u][cn].Eq(dr[cn]) {
					continue
				}
				kind := valueKind(&sch.Tables[tn].Columns[cn].Type)
				var touch []string
				for _, op := range ops {
					if op["table"] != tn {
						continue
					}
					switch op["op"] {
					case "mutate":
						muts, _ := op["mutations"].([]any)
						n := 0
						for _, mj := range muts {
							if m, ok := mj.([]any); ok && len(m) == 3 && m[0] == cn {
								touch = append(touch, fmt.Sprintf("mutate(%v)", m[1]))
								n++
							}
						}
						if n > 1 {
							touch = append(touch, "same-column-twice-in-one-op")
						}
					case "update", "insert":
						if row, ok := op["row"].(map[string]any); ok {
							if _, has := row[cn]; has {
								touch = append(touch, fmt.Sprint(op["op"]))
							}
						}
					}
				}
				if len(touch) == 0 {
					touch = []string{"untouched"}
				}
				return kind + ":" + strings.Join(touch, "+")
			}
		}
	}
	return "other"
}

// mentionsUnchangedRow: does a frame mention a row that ends the transaction
// exactly as it began (in every column, monitored or not)?
func (s *s1) mentionsUnchangedRow(o *observer, ups []*RawNote, out *TxnOutcome) bool {
	for _, n := range ups {
		d, err := DecodeTableUpdates(s.e.Sch, n.Params[len(n.Params)-1], o.spec.Method != "monitor")
		if err != nil {
			return true
		}
		for _, r := range d.Rows {
			b, okb := out.Before[r.Table][r.UUID]
			a, oka := out.After[r.Table][r.UUID]
			if okb && oka && b.String() == a.String() {
				return true
			}
		}
	}
	return false
}

// condKey names the first condition of an operation that is not a plain
// scalar / _uuid comparison: function / column kind / empty argument.
func condKey(sch *Schema, op Op) string {
	sh := whereShape(sch, op)
	sh = strings.TrimSuffix(strings.TrimPrefix(sh, "where["), "]")
	if sh == "" {
		return "cond:none"
	}
	for _, a := range strings.Split(sh, ",") {
		if strings.HasSuffix(a, "/scalar") || strings.HasSuffix(a, "/uuid") {
			continue
		}
		return "cond:" + a
	}
	return "cond:scalar-only"
}
