#!/usr/bin/env python3
"""gen_sec13.py -- dev helper: prints the two tables of DESIGN.md section 13 from /verif/seeded/*/meta.json"""
import json, glob, re
def runs(x): return sum(int(c['runs']) for c in x['violation_classes'])
def tot(x):
    m = re.search(r'(\d+) runs', x['summary']); return m.group(1) if m else '?'
rows = {1: [], 3: []}
stats = {'n': 0, 'quick': 0, 'more': 0, 'other': 0, 'missed': 0}
for p in sorted(glob.glob('/verif/seeded/*/meta.json')):
    m = json.load(open(p)); sid = m['id']; prop = m['property']
    fin = m['ran'][0] if m['ran'] else None
    hist = m.get('history', [])
    what = (m['summary'] or '').replace('\n', ' ').replace('|', '/')
    what = what[:140] + ('…' if len(what) > 140 else '')
    stats['n'] += 1
    if fin and fin['exit'] == 1:
        res = '%d of %s runs' % (runs(fin), tot(fin)); stats['quick'] += 1
        cell = ', '.join('`%s`' % o for o in sorted(set(c['oracle'] for c in fin['violation_classes'])))
    else:
        res = '0 of %s runs' % (tot(fin) if fin else '?')
        own = [h for h in hist if h['exit'] == 1 and 'another property' not in h['command']]
        oth = [h for h in hist if h['exit'] == 1 and 'another property' in h['command']]
        ev = []
        if own:
            h = sorted(own, key=lambda h: h.get('budget_s', 60))[-1]
            ev.append('earlier or longer, %d s: %d of %s runs (%s)' % (h['budget_s'], runs(h), tot(h), ', '.join(sorted(set('`%s`' % c['oracle'] for c in h['violation_classes'])))))
        for h in oth[:1]:
            ev.append('caught by %s: %d of %s runs' % (re.search(r'check (C\d+)', h['command']).group(1), runs(h), tot(h)))
        if own: stats['more'] += 1
        elif oth: stats['other'] += 1
        else: stats['missed'] += 1
        cell = '; '.join(ev) or '**not caught** (see below)'
    rows[m['wave']].append('| %s | %s | %s | %s |' % (sid, what, res, cell))
hdr = '| id | change (abridged) | last pass, quick tier (60 s) | oracles that fired / other evidence |\n|---|---|---|---|\n'
print(hdr + '\n'.join(rows[1]) + '\n\n' + hdr + '\n'.join(rows[3]) + '\n')
print(json.dumps(stats))
