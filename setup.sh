#!/bin/bash
# Build the instrumentation tool and warm the Go build cache (offline).
set -u
export GOFLAGS=-mod=mod GOPROXY=off GOSUMDB=off GOTOOLCHAIN=local GOWORK=off
cd /verif/simify && go build -o /verif/bin/simify . || exit 2
S=$(mktemp -d /var/tmp/verif-setup.XXXXXX)
/verif/prep.sh "$S/w" >/dev/null || { rm -rf "$S"; exit 2; }
rm -rf "$S"
echo setup ok
