#!/usr/bin/env python3
"""evalmut.py <mutant-dir> <PROP> [PROP...]  -- dev helper for deliberate breaks.
Confirms the mutant in a scratch worktree of /repo (patch applies, builds, the existing tests of the
library packages pass, the demo fails with the patch and passes without), then runs the given checks
against the patched tree (VERIF_REPO), never touching /repo. Prints a JSON summary."""
import json, os, subprocess, sys, shutil, re, time
md = os.path.abspath(sys.argv[1]); props = [a for a in sys.argv[2:] if not a.startswith("--")]
env = dict(os.environ, GOFLAGS="-mod=mod", GOPROXY="off", GOSUMDB="off", GOTOOLCHAIN="local", GOWORK="off")
wt = f"/tmp/wt-eval-{os.getpid()}"
def sh(cmd, cwd=None, timeout=1800):
    p = subprocess.run(cmd, shell=True, cwd=cwd, env=env, capture_output=True, text=True, timeout=timeout)
    return p.returncode, p.stdout + p.stderr
res = {"mutant": md, "props": {}}
sh(f"git -C /repo worktree remove --force {wt}"); shutil.rmtree(wt, ignore_errors=True)
rc, out = sh(f"git -C /repo worktree add -q --detach {wt} HEAD")
try:
    meta = json.load(open(f"{md}/meta.json")) if os.path.exists(f"{md}/meta.json") else {}
    res["summary"] = meta.get("summary")
    pk = "./client/... ./cache/... ./server/... ./database/... ./updates/... ./mapper/... ./model/... ./ovsdb/..."
    if "--skip-confirm" not in sys.argv:
        # demo without the patch
        demo_dir = meta.get("demo_dir")
        demo_src = f"{md}/demo_test.go"
        if os.path.exists(demo_src):
            pkgline = [l for l in open(demo_src) if l.startswith("package ")][0].split()[1]
            guess = {"client": "client", "cache": "cache", "server": "server", "updates": "updates", "inmemory": "database/inmemory", "transaction": "database/transaction", "ovsdb": "ovsdb", "mapper": "mapper", "model": "model", "client_test": "client", "server_test": "server", "cache_test": "cache"}.get(pkgline)
            m = re.search(r"go test[^\n]*?\s\./([\w/]+?)/?(?:\s|$|`|\))", meta.get("demo") or "")
            demo_dir = demo_dir or (m.group(1) if m else None) or guess
            if demo_dir and not os.path.isdir(f"{wt}/{demo_dir}"):
                os.makedirs(f"{wt}/{demo_dir}", exist_ok=True)
        if demo_dir and os.path.exists(demo_src):
            shutil.copy(demo_src, f"{wt}/{demo_dir}/zz_demo_test.go")
            names = re.findall(r"^func (Test\w+)\(", open(demo_src).read(), re.M)
            runre = "^(" + "|".join(names) + ")$" if names else "."
            race = "-race" if "-race" in (meta.get("demo") or "") else ""
            rc0, o0 = sh(f"go test -vet=off -count=1 {race} -run '{runre}' ./{demo_dir}/", cwd=wt)
            res["demo_without_patch"] = "pass" if rc0 == 0 else "FAIL"
            if rc0 != 0: res["demo_without_patch_out"] = o0[-800:]
    rc, out = sh(f"git apply {md}/patch.diff", cwd=wt)
    res["applies"] = rc == 0
    if rc != 0:
        res["apply_err"] = out[-500:]; print(json.dumps(res, indent=1)); sys.exit(1)
    if "--skip-confirm" not in sys.argv:
        rc, out = sh(f"go build {pk}", cwd=wt); res["builds"] = rc == 0
        if demo_dir and os.path.exists(demo_src):
            rc1, o1 = sh(f"go test -vet=off -count=1 {race} -run '{runre}' ./{demo_dir}/", cwd=wt)
            res["demo_with_patch"] = "fail (as wanted)" if rc1 != 0 else "PASSES (demo does not show the bug)"
            os.remove(f"{wt}/{demo_dir}/zz_demo_test.go")
        rc, out = sh(f"go test -vet=off -count=1 {pk}", cwd=wt); res["existing_tests"] = "pass" if rc == 0 else "FAIL"
        if rc != 0: res["existing_tests_out"] = out[-1500:]
    for p in props:
        outdir = f"/tmp/evalmut-out-{os.getpid()}-{p}"
        os.makedirs(outdir, exist_ok=True)
        t0 = time.time()
        e2 = dict(env, VERIF_REPO=wt, VERIF_OUT=outdir)
        if os.environ.get("MUT_BUDGET"): e2["VERIF_BUDGET_S"] = os.environ["MUT_BUDGET"]
        pr = subprocess.run(["/verif/check", p, os.environ.get("MUT_TIER", "quick")], env=e2, capture_output=True, text=True, cwd="/verif")
        viol = re.findall(r"^--- (\S+) \[([^\]]*)\] seed=(\d+) \((\d+) (?:run|crash)", pr.stdout, re.M)
        res["props"][p] = {"exit": pr.returncode, "classes": viol, "wall_s": round(time.time() - t0), "summary": pr.stdout.strip().splitlines()[-1][:300] if pr.stdout.strip() else pr.stderr[-300:]}
        if pr.returncode == 1 and "--keep-replays" in sys.argv:
            res["props"][p]["out"] = outdir
        else:
            shutil.rmtree(outdir, ignore_errors=True)
finally:
    sh(f"git -C /repo worktree remove --force {wt}"); shutil.rmtree(wt, ignore_errors=True)
print(json.dumps(res, indent=1))
