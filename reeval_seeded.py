#!/usr/bin/env python3
"""reeval_seeded.py [id-prefix...]  -- dev helper: confirm every deliberate break under /verif/seeded
again on /repo's HEAD (scratch worktree: applies, builds, existing tests pass, demo passes without and
fails with the patch) and run its own property's quick check against the patched tree; the previous
result moves to meta.json's history. Results are kept under /tmp/reeval so that a run can be resumed."""
import json, os, subprocess, sys, glob
os.makedirs("/tmp/reeval", exist_ok=True)
head = subprocess.check_output(["git", "-C", "/repo", "rev-parse", "--short", "HEAD"], text=True).strip()
sel = [a for a in sys.argv[1:] if not a.startswith("--")]
skip = "--skip-confirm" in sys.argv or os.path.exists("/tmp/reeval_skip_confirm")  # only re-run the check
for d in sorted(glob.glob("/verif/seeded/*")):
    sid = os.path.basename(d)
    if sel and not any(sid.startswith(s) for s in sel):
        continue
    out = f"/tmp/reeval/{sid}.{head}.json"
    meta = json.load(open(f"{d}/meta.json"))
    prop = meta["property"]
    if not os.path.exists(out):
        p = subprocess.run(["/verif/evalmut.py", d, prop] + (["--skip-confirm"] if skip else []), capture_output=True, text=True)
        try:
            ev = json.loads(p.stdout[p.stdout.index("{"):])
        except Exception:
            print(sid, "EVAL-FAILED", p.stdout[-300:], p.stderr[-300:], flush=True)
            continue
        json.dump(ev, open(out, "w"))
    ev = json.load(open(out))
    r = ev["props"][prop]
    new = {"command": f"re-evaluation on the final tree ({head}): VERIF_REPO=<scratch worktree of /repo HEAD + patch.diff> VERIF_OUT=<scratch> /verif/check {prop} quick",
           "budget_s": 60, "exit": r["exit"],
           "violation_classes": [{"oracle": c[0], "key": c[1], "first_seed": c[2], "runs": c[3]} for c in r["classes"]],
           "summary": r["summary"]}
    if meta.get("ran") and head not in meta["ran"][0].get("command", ""):
        old = meta["ran"][0]
        old.setdefault("phase", "earlier tree (before the repairs FX51-FX67)")
        meta.setdefault("history", []).append(old)
    meta["ran"] = [new]
    if "builds" in ev:
        meta["confirmed_by_me"].update({"repo_head": head, "patch_applies": ev.get("applies"), "builds": ev.get("builds"),
                                        "existing_tests_with_patch": ev.get("existing_tests"),
                                        "demo_without_patch": ev.get("demo_without_patch"), "demo_with_patch": ev.get("demo_with_patch")})
    else:
        meta["confirmed_by_me"]["patch_applies_on_" + head] = ev.get("applies")
    meta["caught"] = r["exit"] == 1
    meta["caught_at_some_point"] = meta["caught"] or any(h.get("exit") == 1 for h in meta.get("history", []))
    json.dump(meta, open(f"{d}/meta.json", "w"), indent=1, ensure_ascii=False)
    ok = ("builds" not in ev and ev.get("applies")) or all([ev.get("applies"), ev.get("builds"), ev.get("existing_tests") == "pass", ev.get("demo_without_patch") == "pass", str(ev.get("demo_with_patch", "")).startswith("fail")])
    print(sid, "CAUGHT" if meta["caught"] else "missed", "confirmed" if ok else "CONFIRM-PROBLEM " + json.dumps({k: ev.get(k) for k in ("applies", "builds", "existing_tests", "demo_without_patch", "demo_with_patch")}), r["summary"][:140], flush=True)
