// simify instruments a scratch copy of libovsdb for deterministic simulation.
// It is a type-checked, text-edit based source-to-source pass (comments and
// line numbers are preserved) that interposes only at standard-library
// boundaries and control-flow points:
//
//	R1 sync.Mutex / sync.RWMutex type expressions   -> simrt.Mutex / simrt.RWMutex
//	R2 for ... range <map>                           -> range simrt.Entries(<map>) with live lookups
//	R3 (*net.Dialer|*tls.Dialer).DialContext, net.Listen -> simrt.DialContext / simrt.Listen
//	R4 soft yields at function and loop body starts  (packages given by -yield)
//	R5 hard yields after channel receives, in select clauses, after rpc2 calls / WaitGroup.Wait
//	R6 go f(args)                                    -> simrt.GoN(simrt.Spawn(site), f, args)
//
// Usage: simify -dir <scratch repo> [-no-r2] [-no-r4] -yield client,cache,... pkgpattern...
// Exit status 2 on any failure (never reported as a violation).
package main

import (
	"encoding/json"
	"flag"
	"fmt"
	"go/ast"
	"go/format"
	"go/parser"
	"go/token"
	"go/types"
	"os"
	"path/filepath"
	"regexp"
	"sort"
	"strings"

	"golang.org/x/tools/go/packages"
)

type edit struct {
	start, end int // byte offsets; start==end is an insertion
	text       string
	prio       int // order among edits at the same offset
}

type stats struct {
	R1, R2, R2Skipped, R3, R4, R5, R6, R6Skipped, R7, R8 int
	Files                                                int
	R2SkippedAt                                          []string
	R6SkippedAt                                          []string
}

var (
	st        stats
	siteN     int
	sites     []string
	modPath   string
	noR2      bool
	noR4      bool
	noR7      bool
	noR8      bool
	r8All     bool
	labelCopy int
	yieldPkg  = map[string]bool{}
)

func fail(format string, a ...any) {
	fmt.Fprintf(os.Stderr, "simify: "+format+"\n", a...)
	os.Exit(2)
}

func main() {
	dir := flag.String("dir", ".", "scratch copy of the repository")
	yield := flag.String("yield", "client,cache,server,database,database/inmemory,database/transaction,updates", "packages (relative) that get R4/R5 yields")
	flag.BoolVar(&noR2, "no-r2", false, "skip the map iteration rewrite")
	flag.BoolVar(&noR4, "no-r4", false, "skip soft yields")
	flag.BoolVar(&noR7, "no-r7", false, "skip the select rewrite")
	flag.BoolVar(&noR8, "no-r8", false, "skip the map access tracking rewrite")
	flag.BoolVar(&r8All, "r8-all", false, "track every map access, not only maps held in struct fields and package-level variables")
	flag.Parse()
	pats := flag.Args()
	if len(pats) == 0 {
		pats = []string{"./client/...", "./cache/...", "./server/...", "./database/...", "./updates/...", "./mapper/...", "./model/...", "./ovsdb/..."}
	}
	gm, err := os.ReadFile(filepath.Join(*dir, "go.mod"))
	if err != nil {
		fail("%v", err)
	}
	for _, l := range strings.Split(string(gm), "\n") {
		if strings.HasPrefix(l, "module ") {
			modPath = strings.TrimSpace(strings.TrimPrefix(l, "module "))
		}
	}
	if modPath == "" {
		fail("no module path")
	}
	for _, p := range strings.Split(*yield, ",") {
		yieldPkg[modPath+"/"+strings.TrimSpace(p)] = true
	}
	// pass A (purely syntactic): make the choice among simultaneously ready
	// cases of a select owned by the simulator (R7)
	if !noR7 {
		pre, err := packages.Load(&packages.Config{Mode: packages.NeedName | packages.NeedFiles, Dir: *dir}, pats...)
		if err != nil {
			fail("load (files): %v", err)
		}
		for _, p := range pre {
			if strings.HasSuffix(p.PkgPath, "/simrt") {
				continue
			}
			for _, name := range p.GoFiles {
				if strings.HasSuffix(name, "_test.go") {
					continue
				}
				if err := rewriteSelects(name); err != nil {
					fail("%s: %v", name, err)
				}
			}
		}
	}
	cfg := &packages.Config{
		Mode: packages.NeedName | packages.NeedFiles | packages.NeedSyntax | packages.NeedTypes | packages.NeedTypesInfo | packages.NeedImports | packages.NeedCompiledGoFiles,
		Dir:  *dir,
		Fset: token.NewFileSet(),
	}
	pkgs, err := packages.Load(cfg, pats...)
	if err != nil {
		fail("load: %v", err)
	}
	if packages.PrintErrors(pkgs) > 0 {
		fail("packages have errors")
	}
	sort.Slice(pkgs, func(i, j int) bool { return pkgs[i].PkgPath < pkgs[j].PkgPath })
	for _, p := range pkgs {
		if strings.HasSuffix(p.PkgPath, "/simrt") {
			continue
		}
		for i, f := range p.Syntax {
			name := p.CompiledGoFiles[i]
			if strings.HasSuffix(name, "_test.go") {
				continue
			}
			if err := rewriteFile(cfg.Fset, p, f, name); err != nil {
				fail("%s: %v", name, err)
			}
		}
	}
	out, _ := json.MarshalIndent(map[string]any{"stats": st, "sites": sites}, "", " ")
	_ = os.WriteFile(filepath.Join(*dir, "simify.json"), out, 0o644)
	fmt.Printf("simify: files=%d R1=%d R2=%d (skipped %d) R3=%d R4=%d R5=%d R6=%d (skipped %d) R7=%d R8=%d\n", st.Files, st.R1, st.R2, st.R2Skipped, st.R3, st.R4, st.R5, st.R6, st.R6Skipped, st.R7, st.R8)
}

func site(fset *token.FileSet, pos token.Pos) int {
	p := fset.Position(pos)
	siteN++
	sites = append(sites, fmt.Sprintf("%d %s:%d", siteN, filepath.Base(p.Filename), p.Line))
	return siteN
}

func siteStr(fset *token.FileSet, pos token.Pos) string {
	p := fset.Position(pos)
	return fmt.Sprintf("%s:%d", strings.TrimSuffix(filepath.Base(p.Filename), ".go"), p.Line)
}

func rewriteFile(fset *token.FileSet, p *packages.Package, f *ast.File, name string) error {
	src, err := os.ReadFile(name)
	if err != nil {
		return err
	}
	tf := fset.File(f.Pos())
	off := func(pos token.Pos) int { return tf.Offset(pos) }
	text := func(n ast.Node) string { return string(src[off(n.Pos()):off(n.End())]) }
	info := p.TypesInfo
	var edits []edit
	add := func(s, e int, t string, prio int) { edits = append(edits, edit{s, e, t, prio}) }
	wantYield := yieldPkg[p.PkgPath]
	usesSimrt := false
	tmpN := 0

	pkgOf := func(x ast.Expr) string {
		id, ok := x.(*ast.Ident)
		if !ok {
			return ""
		}
		if pn, ok := info.Uses[id].(*types.PkgName); ok {
			return pn.Imported().Path()
		}
		return ""
	}

	// remaining uses of imports we may make redundant
	removedSel := map[*ast.SelectorExpr]bool{}

	isChanRecv := func(e ast.Expr) bool {
		found := false
		ast.Inspect(e, func(n ast.Node) bool {
			if _, ok := n.(*ast.FuncLit); ok {
				return false
			}
			if u, ok := n.(*ast.UnaryExpr); ok && u.Op == token.ARROW {
				found = true
			}
			return !found
		})
		return found
	}
	isBlockingCall := func(n ast.Node) bool {
		found := false
		ast.Inspect(n, func(n ast.Node) bool {
			if _, ok := n.(*ast.FuncLit); ok {
				return false
			}
			c, ok := n.(*ast.CallExpr)
			if !ok {
				return !found
			}
			sel, ok := c.Fun.(*ast.SelectorExpr)
			if !ok {
				return true
			}
			if s, ok := info.Selections[sel]; ok {
				if fn, ok := s.Obj().(*types.Func); ok && fn.Pkg() != nil {
					full := fn.Pkg().Path() + "." + fn.Name()
					switch full {
					case "github.com/cenkalti/rpc2.CallWithContext", "github.com/cenkalti/rpc2.Call", "sync.Wait", "github.com/cenkalti/backoff/v4.Retry":
						found = true
					}
				}
			} else if pkgOf(sel.X) == "time" && sel.Sel.Name == "Sleep" {
				found = true
			} else if pkgOf(sel.X) == "github.com/cenkalti/backoff/v4" && sel.Sel.Name == "Retry" {
				found = true
			}
			return !found
		})
		return found
	}

	capturesOrAddr := func(body *ast.BlockStmt, objs []types.Object) bool {
		bad := false
		isObj := func(id *ast.Ident) bool {
			o := info.Uses[id]
			for _, x := range objs {
				if x != nil && o == x {
					return true
				}
			}
			return false
		}
		ast.Inspect(body, func(n ast.Node) bool {
			switch x := n.(type) {
			case *ast.FuncLit:
				ast.Inspect(x.Body, func(m ast.Node) bool {
					if id, ok := m.(*ast.Ident); ok && isObj(id) {
						bad = true
					}
					return !bad
				})
				return false
			case *ast.UnaryExpr:
				if x.Op == token.AND {
					if id, ok := x.X.(*ast.Ident); ok && isObj(id) {
						bad = true
					}
				}
			}
			return !bad
		})
		return bad
	}

	var hardAfter func(list []ast.Stmt)
	hardAfter = func(list []ast.Stmt) {
		for _, s := range list {
			need := false
			switch x := s.(type) {
			case *ast.ExprStmt:
				need = isChanRecv(x.X) || isBlockingCall(x)
			case *ast.AssignStmt:
				for _, r := range x.Rhs {
					if isChanRecv(r) {
						need = true
					}
				}
				if isBlockingCall(x) {
					need = true
				}
			}
			if need {
				add(off(s.End()), off(s.End()), fmt.Sprintf("; simrt.YieldHard(%d)", site(fset, s.Pos())), 5)
				st.R5++
				usesSimrt = true
			}
		}
	}

	ast.Inspect(f, func(n ast.Node) bool {
		switch x := n.(type) {
		case *ast.SelectorExpr:
			// R1
			if pkgOf(x.X) == "sync" && (x.Sel.Name == "Mutex" || x.Sel.Name == "RWMutex") {
				add(off(x.Pos()), off(x.End()), "simrt."+x.Sel.Name, 0)
				removedSel[x] = true
				st.R1++
				usesSimrt = true
				return false
			}
		case *ast.CallExpr:
			// R3
			if sel, ok := x.Fun.(*ast.SelectorExpr); ok {
				if pkgOf(sel.X) == "net" && sel.Sel.Name == "Listen" {
					add(off(sel.Pos()), off(sel.End()), "simrt.Listen", 0)
					removedSel[sel] = true
					st.R3++
					usesSimrt = true
				} else if sel.Sel.Name == "DialContext" {
					if s, ok := info.Selections[sel]; ok {
						rt := s.Recv().String()
						rt = strings.TrimPrefix(rt, "*")
						if rt == "net.Dialer" || rt == "crypto/tls.Dialer" {
							add(off(sel.Pos()), off(x.Lparen)+1, "simrt.DialContext("+text(sel.X)+", ", 0)
							st.R3++
							usesSimrt = true
						}
					}
				}
			}
		case *ast.GoStmt:
			// R6
			call := x.Call
			ok := true
			var sig *types.Signature
			if tv, has := info.Types[call.Fun]; has {
				sig, _ = tv.Type.Underlying().(*types.Signature)
			}
			if sig == nil || sig.Variadic() || len(call.Args) > 2 || sig.Results().Len() > 1 || call.Ellipsis.IsValid() {
				ok = false
			}
			if sig != nil && sig.Results().Len() == 1 && len(call.Args) == 2 {
				ok = false
			}
			if ok {
				fn := fmt.Sprintf("simrt.Go%d", len(call.Args))
				if sig.Results().Len() == 1 {
					fn += "R"
				}
				add(off(x.Pos()), off(call.Fun.Pos()), fmt.Sprintf("%s(simrt.Spawn(%q), ", fn, siteStr(fset, x.Pos())), 0)
				if len(call.Args) == 0 {
					add(off(call.Lparen), off(call.Lparen)+1, "", 0)
				} else {
					add(off(call.Lparen), off(call.Lparen)+1, ", ", 0)
				}
				st.R6++
				usesSimrt = true
			} else {
				st.R6Skipped++
				st.R6SkippedAt = append(st.R6SkippedAt, siteStr(fset, x.Pos()))
			}
		case *ast.RangeStmt:
			tv, has := info.Types[x.X]
			if !has {
				break
			}
			_, isMap := tv.Type.Underlying().(*types.Map)
			if isMap && !noR2 {
				var objs []types.Object
				for _, e := range []ast.Expr{x.Key, x.Value} {
					if id, ok := e.(*ast.Ident); ok && id.Name != "_" {
						if o := info.Defs[id]; o != nil {
							objs = append(objs, o)
						} else if o := info.Uses[id]; o != nil {
							objs = append(objs, o)
						}
					}
				}
				if x.Tok == token.DEFINE && capturesOrAddr(x.Body, objs) {
					st.R2Skipped++
					st.R2SkippedAt = append(st.R2SkippedAt, siteStr(fset, x.Pos()))
				} else {
					tmpN++
					e := fmt.Sprintf("__e%d", tmpN)
					okv := fmt.Sprintf("__ok%d", tmpN)
					add(off(x.For), off(x.X.Pos()), "for _, "+e+" := range simrt.Entries(", 0)
					var hdr string
					k, v := "_", "_"
					if x.Key != nil {
						k = text(x.Key)
					}
					if x.Value != nil {
						v = text(x.Value)
					}
					switch {
					case x.Tok == token.ASSIGN:
						if x.Value != nil {
							hdr = fmt.Sprintf("var %s bool; %s, %s, %s = %s.KV(); if !%s { continue };", okv, k, v, okv, e, okv)
						} else {
							hdr = fmt.Sprintf("var %s bool; %s, %s = %s.K(); if !%s { continue };", okv, k, okv, e, okv)
						}
					case x.Value != nil:
						hdr = fmt.Sprintf("%s, %s, %s := %s.KV(); if !%s { continue };", k, v, okv, e, okv)
					default:
						hdr = fmt.Sprintf("%s, %s := %s.K(); if !%s { continue };", k, okv, e, okv)
					}
					add(off(x.X.End()), off(x.Body.Lbrace)+1, ") { "+hdr, 0)
					st.R2++
					usesSimrt = true
				}
			}
		}
		return true
	})

	// R8: accesses to maps held in struct fields or package-level variables are
	// reported to the run-time (lockset tracking): x.f[k] -> simrt.MR(x.f, site)[k],
	// x.f[k] = v -> simrt.MW(x.f, site)[k] = v, delete(x.f, k), len(x.f)
	if !noR8 {
		isSharedMap := func(e ast.Expr) bool {
			tv, ok := info.Types[e]
			if !ok || tv.Type == nil {
				return false
			}
			if _, isMap := tv.Type.Underlying().(*types.Map); !isMap {
				return false
			}
			if r8All {
				switch e.(type) {
				case *ast.CompositeLit, *ast.CallExpr:
					return false
				}
				return true
			}
			switch x := e.(type) {
			case *ast.SelectorExpr:
				if sel := info.Selections[x]; sel != nil {
					return sel.Kind() == types.FieldVal
				}
				// qualified identifier: package-level variable of another package
				_, isVar := info.Uses[x.Sel].(*types.Var)
				return isVar
			case *ast.Ident:
				v, isVar := info.Uses[x].(*types.Var)
				return isVar && v.Parent() == p.Types.Scope()
			}
			return false
		}
		wrap := func(e ast.Expr, write bool) {
			fn := "simrt.MR("
			if write {
				fn = "simrt.MW("
			}
			add(off(e.Pos()), off(e.Pos()), fn, -2)
			add(off(e.End()), off(e.End()), fmt.Sprintf(", %q)", siteStr(fset, e.Pos())), -2)
			st.R8++
			usesSimrt = true
		}
		writes := map[ast.Expr]bool{}
		ast.Inspect(f, func(n ast.Node) bool {
			switch x := n.(type) {
			case *ast.AssignStmt:
				for _, l := range x.Lhs {
					if ix, ok := l.(*ast.IndexExpr); ok {
						writes[ix] = true
					}
				}
			case *ast.IncDecStmt:
				if ix, ok := x.X.(*ast.IndexExpr); ok {
					writes[ix] = true
				}
			}
			return true
		})
		ast.Inspect(f, func(n ast.Node) bool {
			switch x := n.(type) {
			case *ast.IndexExpr:
				if isSharedMap(x.X) {
					wrap(x.X, writes[x])
				}
			case *ast.RangeStmt:
				if isSharedMap(x.X) {
					wrap(x.X, false)
				}
			case *ast.CallExpr:
				if id, ok := x.Fun.(*ast.Ident); ok && len(x.Args) >= 1 {
					if _, isBuiltin := info.Uses[id].(*types.Builtin); isBuiltin && isSharedMap(x.Args[0]) {
						switch id.Name {
						case "delete":
							wrap(x.Args[0], true)
						case "len":
							wrap(x.Args[0], false)
						}
					}
				}
			}
			return true
		})
	}

	if wantYield {
		ast.Inspect(f, func(n ast.Node) bool {
			switch x := n.(type) {
			case *ast.FuncDecl:
				if x.Body != nil && !noR4 && x.Name.Name != "init" {
					add(off(x.Body.Lbrace)+1, off(x.Body.Lbrace)+1, fmt.Sprintf(" simrt.Yield(%d);", site(fset, x.Body.Lbrace)), 3)
					st.R4++
					usesSimrt = true
				}
			case *ast.FuncLit:
				if !noR4 {
					add(off(x.Body.Lbrace)+1, off(x.Body.Lbrace)+1, fmt.Sprintf(" simrt.Yield(%d);", site(fset, x.Body.Lbrace)), 3)
					st.R4++
					usesSimrt = true
				}
			case *ast.ForStmt:
				if !noR4 {
					add(off(x.Body.Lbrace)+1, off(x.Body.Lbrace)+1, fmt.Sprintf(" simrt.Yield(%d);", site(fset, x.Body.Lbrace)), 3)
					st.R4++
					usesSimrt = true
				}
			case *ast.RangeStmt:
				isChan := false
				if tv, ok := info.Types[x.X]; ok {
					_, isChan = tv.Type.Underlying().(*types.Chan)
				}
				if isChan {
					add(off(x.Body.Lbrace)+1, off(x.Body.Lbrace)+1, fmt.Sprintf(" simrt.YieldHard(%d);", site(fset, x.Body.Lbrace)), 3)
					st.R5++
					usesSimrt = true
				} else if !noR4 {
					add(off(x.Body.Lbrace)+1, off(x.Body.Lbrace)+1, fmt.Sprintf(" simrt.Yield(%d);", site(fset, x.Body.Lbrace)), 3)
					st.R4++
					usesSimrt = true
				}
			case *ast.CommClause:
				if x.Comm != nil { // not for default: nothing was received there
					add(off(x.Colon)+1, off(x.Colon)+1, fmt.Sprintf(" simrt.YieldHard(%d);", site(fset, x.Colon)), 3)
					st.R5++
					usesSimrt = true
				}
				hardAfter(x.Body)
			case *ast.BlockStmt:
				hardAfter(x.List)
			case *ast.CaseClause:
				hardAfter(x.Body)
			}
			return true
		})
	}

	if !usesSimrt {
		return nil
	}

	// imports: add simrt, drop imports that became unused
	stillUsed := map[string]bool{}
	ast.Inspect(f, func(n ast.Node) bool {
		if sel, ok := n.(*ast.SelectorExpr); ok && !removedSel[sel] {
			if p := pkgOf(sel.X); p != "" {
				stillUsed[p] = true
			}
		}
		return true
	})
	candidates := map[string]bool{"sync": true, "net": true}
	firstImportDone := false
	for _, is := range f.Imports {
		if strings.Trim(is.Path.Value, "\"") == modPath+"/simrt" {
			firstImportDone = true // pass A already imported it
		}
	}
	for _, d := range f.Decls {
		gd, ok := d.(*ast.GenDecl)
		if !ok || gd.Tok != token.IMPORT {
			continue
		}
		for _, spec := range gd.Specs {
			is := spec.(*ast.ImportSpec)
			path := strings.Trim(is.Path.Value, "\"")
			if candidates[path] && !stillUsed[path] && (is.Name == nil || is.Name.Name != "_") {
				add(off(is.Pos()), off(is.End()), "_ "+is.Path.Value, 0)
			}
		}
		if !firstImportDone {
			firstImportDone = true
			add(off(gd.End()), off(gd.End()), "\nimport simrt \""+modPath+"/simrt\"", 9)
		}
	}
	if !firstImportDone {
		add(off(f.Name.End()), off(f.Name.End()), "\nimport simrt \""+modPath+"/simrt\"", 9)
	}

	// apply
	sort.SliceStable(edits, func(i, j int) bool {
		if edits[i].start != edits[j].start {
			return edits[i].start < edits[j].start
		}
		if (edits[i].end > edits[i].start) != (edits[j].end > edits[j].start) {
			// replacements that END here were sorted by start already; pure
			// insertions at the same start go after zero-width? keep prio
		}
		return edits[i].prio < edits[j].prio
	})
	var out []byte
	pos := 0
	for _, e := range edits {
		if e.start < pos {
			// an insertion exactly at the end of the previous replacement is fine
			if e.start == e.end && e.start == pos {
				out = append(out, e.text...)
				continue
			}
			if e.start == e.end && e.start < pos {
				// insertion inside a replaced range (yield at a loop brace that R2 rewrote): append after
				out = append(out, e.text...)
				continue
			}
			return fmt.Errorf("overlapping edits at offset %d (%q)", e.start, e.text)
		}
		out = append(out, src[pos:e.start]...)
		out = append(out, e.text...)
		pos = e.end
	}
	out = append(out, src[pos:]...)
	st.Files++
	return os.WriteFile(name, out, 0o644)
}

// rewriteSelects (R7): a select without default and with >= 2 cases is turned
// into a chain of non-blocking attempts in a priority order chosen by the
// simulator (source order or its reverse), followed by the original blocking
// select. When several cases are ready at once Go picks one at random; after
// the rewrite the pick is a pure function of (seed, goroutine, count).
func rewriteSelects(name string) error {
	src, err := os.ReadFile(name)
	if err != nil {
		return err
	}
	fset := token.NewFileSet()
	f, err := parser.ParseFile(fset, name, src, parser.ParseComments)
	if err != nil {
		return err
	}
	tf := fset.File(f.Pos())
	off := func(p token.Pos) int { return tf.Offset(p) }
	type rep struct {
		s, e int
		text string
	}
	var reps []rep
	// text of src[a:b] with the replacements collected so far that fall inside it applied
	// (they are removed from the list: the caller's replacement subsumes them)
	render := func(a, b int) string {
		var in, rest []rep
		for _, r := range reps {
			if r.s >= a && r.e <= b {
				in = append(in, r)
			} else {
				rest = append(rest, r)
			}
		}
		reps = rest
		sort.Slice(in, func(i, j int) bool { return in[i].s < in[j].s })
		var out []byte
		pos := a
		for _, r := range in {
			out = append(out, src[pos:r.s]...)
			out = append(out, r.text...)
			pos = r.e
		}
		out = append(out, src[pos:b]...)
		return string(out)
	}
	var sels []*ast.SelectStmt
	ast.Inspect(f, func(n ast.Node) bool {
		if sel, ok := n.(*ast.SelectStmt); ok {
			sels = append(sels, sel)
		}
		return true
	})
	// innermost first
	sort.Slice(sels, func(i, j int) bool { return sels[i].End()-sels[i].Pos() < sels[j].End()-sels[j].Pos() })
	for _, sel := range sels {
		var clauses []*ast.CommClause
		hasDefault := false
		for _, c := range sel.Body.List {
			cc := c.(*ast.CommClause)
			if cc.Comm == nil {
				hasDefault = true
			}
			clauses = append(clauses, cc)
		}
		if hasDefault || len(clauses) < 2 {
			continue
		}
		type piece struct{ head, body string }
		var ps []piece
		for i, cc := range clauses {
			end := off(sel.Body.Rbrace)
			if i+1 < len(clauses) {
				end = off(clauses[i+1].Pos())
			}
			ps = append(ps, piece{head: string(src[off(cc.Pos()) : off(cc.Colon)+1]), body: render(off(cc.Colon)+1, end)})
		}
		all := ""
		for _, p := range ps {
			all += p.head + p.body
		}
		// labels defined inside the select would be defined once per copy: every
		// copy of a case body gets its own names
		var labels []string
		ast.Inspect(sel, func(n ast.Node) bool {
			if ls, ok := n.(*ast.LabeledStmt); ok {
				labels = append(labels, ls.Label.Name)
			}
			return true
		})
		relabel := func(text string) string {
			if len(labels) == 0 {
				return text
			}
			labelCopy++
			for _, l := range labels {
				nl := fmt.Sprintf("%s_r7c%d", l, labelCopy)
				text = regexp.MustCompile(`(?m)^(\s*)`+regexp.QuoteMeta(l)+`:`).ReplaceAllString(text, "${1}"+nl+":")
				text = regexp.MustCompile(`\b(break|continue|goto)(\s+)`+regexp.QuoteMeta(l)+`\b`).ReplaceAllString(text, "${1}${2}"+nl)
			}
			return text
		}
		chain := func(order []int) string {
			out := "select {\n" + relabel(all) + "}\n"
			for k := len(order) - 1; k >= 0; k-- {
				p := ps[order[k]]
				out = "select {\n" + p.head + relabel(p.body) + "default:\n" + out + "}\n"
			}
			return out
		}
		fwd := make([]int, len(ps))
		rev := make([]int, len(ps))
		for i := range ps {
			fwd[i] = i
			rev[i] = len(ps) - 1 - i
		}
		p := fset.Position(sel.Pos())
		text := fmt.Sprintf("if simrt.SelectFlip(%q) {\n%s} else {\n%s}\n", fmt.Sprintf("%s:%d", strings.TrimSuffix(filepath.Base(p.Filename), ".go"), p.Line), chain(rev), chain(fwd))
		reps = append(reps, rep{off(sel.Pos()), off(sel.End()), text})
		st.R7++
	}
	if len(reps) == 0 {
		return nil
	}
	sort.Slice(reps, func(i, j int) bool { return reps[i].s < reps[j].s })
	var out []byte
	pos := 0
	for _, r := range reps {
		out = append(out, src[pos:r.s]...)
		out = append(out, r.text...)
		pos = r.e
	}
	out = append(out, src[pos:]...)
	// import simrt
	imp := "\nimport simrt \"" + modPath + "/simrt\"\n"
	idx := strings.Index(string(out), "\nimport ")
	if idx < 0 {
		return fmt.Errorf("no import block")
	}
	out = append(out[:idx], append([]byte(imp), out[idx:]...)...)
	fm, err := format.Source(out)
	if err != nil {
		return fmt.Errorf("select rewrite does not parse: %v", err)
	}
	return os.WriteFile(name, fm, 0o644)
}
