package simrt

import (
	"fmt"
	"reflect"
	"sort"
	"strings"
)

// Lock-discipline tracking of maps held in struct fields and package-level
// variables. The instrumentation pass (R8) wraps every access x.f[k],
// delete(x.f, k), len(x.f) and every range over such a map; the run-time keeps,
// per map object, the distinct (goroutine, read/write, set of simulated mutexes
// held) combinations seen since the map became shared between goroutines, and
// reports two accesses by different goroutines, at least one of them a write,
// that hold no mutex in common in a mode that excludes the other (pairwise
// lockset; Eraser's global intersection would flag maps that are guarded by
// different locks for different pairs of accessors).
//
// Under real threads such a pair is a data race, and for a map a process crash
// ("concurrent map read and map write"). The serialising scheduler can never
// produce that crash itself, which is why the discipline is checked instead.
// Not tracked: ordering through channels, WaitGroups or goroutine creation (an
// object handed over without a lock is only safe if the old owner never touches
// it again - then there is no pair to report); accesses made before a second
// goroutine first touches the map (initialisation); maps in local variables.

type heldLock struct {
	m     *RWMutex
	write bool
}

func (g *G) hold(m *RWMutex, write bool) {
	if g == nil {
		return
	}
	g.held = append(g.held, heldLock{m, write})
}

func (g *G) release(m *RWMutex, write bool) {
	if g == nil {
		return
	}
	for i := len(g.held) - 1; i >= 0; i-- {
		if g.held[i].m == m && g.held[i].write == write {
			g.held = append(g.held[:i], g.held[i+1:]...)
			return
		}
	}
}

type mapSig struct {
	g     *G
	write bool
	locks []heldLock
	site  string
	key   string
}

type mapState struct {
	keep     any // keeps the map alive so that its address is not reused during the run
	owner    *G  // the only goroutine that has touched the map so far (nil once shared)
	sigs     []mapSig
	seen     map[string]bool
	reported bool
}

// MapRace is one report of a map accessed by two goroutines without a common lock.
type MapRace struct {
	Site, PrevSite string
	Detail         string
}

// Key names a report by its two sites (stable across runs).
func (r MapRace) Key() string {
	a := []string{r.Site, r.PrevSite}
	sort.Strings(a)
	return strings.Join(a, "+")
}

// MR records a read access of a shared map (inserted by the instrumentation pass).
func MR[M ~map[K]V, K comparable, V any](m M, site string) M {
	mapAccess(m, false, site)
	return m
}

// MW records a write access of a shared map.
func MW[M ~map[K]V, K comparable, V any](m M, site string) M {
	mapAccess(m, true, site)
	return m
}

func excludes(a, b mapSig) bool {
	for _, x := range a.locks {
		for _, y := range b.locks {
			if x.m == y.m && (x.write || y.write) {
				return true
			}
		}
	}
	return false
}

func rw(w bool) string {
	if w {
		return "write"
	}
	return "read"
}

func mapAccess(m any, write bool, site string) {
	g, s := selfNoAdopt()
	if g == nil || s == nil || g.unmanaged || !s.TrackMaps {
		return
	}
	p := reflect.ValueOf(m).Pointer()
	if p == 0 {
		return
	}
	mu.Lock()
	defer mu.Unlock()
	s.MapAccesses++
	if s.maps == nil {
		s.maps = map[uintptr]*mapState{}
	}
	ms := s.maps[p]
	if ms == nil {
		s.maps[p] = &mapState{keep: m, owner: g, seen: map[string]bool{}}
		return
	}
	if ms.owner == g {
		return // still private to its first user
	}
	ms.owner = nil
	if ms.reported {
		return
	}
	var sb strings.Builder
	fmt.Fprintf(&sb, "%p %v", g, write)
	for _, h := range g.held {
		fmt.Fprintf(&sb, " %p%v", h.m, h.write)
	}
	key := sb.String()
	if ms.seen[key] {
		return
	}
	ms.seen[key] = true
	sig := mapSig{g: g, write: write, locks: append([]heldLock(nil), g.held...), site: site, key: key}
	for _, o := range ms.sigs {
		if o.g == g || !(o.write || write) || excludes(o, sig) {
			continue
		}
		ms.reported = true
		s.MapRaces = append(s.MapRaces, MapRace{Site: site, PrevSite: o.site, Detail: fmt.Sprintf(
			"%s by %s at %s holding %d lock(s) and %s by %s at %s holding %d lock(s): no lock is held by both in a mode that excludes the other",
			rw(write), g.ID, site, len(g.held), rw(o.write), o.g.ID, o.site, len(o.locks))})
		return
	}
	if len(ms.sigs) < 96 {
		ms.sigs = append(ms.sigs, sig)
	}
}
