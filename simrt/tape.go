package simrt

// Tape is the schedule's choice source. In seeded mode choices are drawn from
// a splitmix64 generator and recorded; in replay mode they are read back (and
// are 0, "the simplest thing", once the recording is exhausted). Any tape is a
// valid schedule: an index is reduced modulo the number of enabled actions.
type Tape struct {
	Rec    []uint16
	replay []uint16
	pos    int
	state  uint64
	seeded bool
	// Limit: after this many recorded choices the tape answers 0 (used to
	// bound randomness: the rest of the run is the default policy).
	Limit int
}

func NewSeededTape(seed uint64) *Tape {
	return &Tape{state: seed ^ 0x9e3779b97f4a7c15, seeded: true}
}

func NewReplayTape(choices []uint16) *Tape {
	return &Tape{replay: choices}
}

func (t *Tape) next() uint64 {
	t.state += 0x9e3779b97f4a7c15
	z := t.state
	z = (z ^ (z >> 30)) * 0xbf58476d1ce4e5b9
	z = (z ^ (z >> 27)) * 0x94d049bb133111eb
	return z ^ (z >> 31)
}

// Choose picks an index in [0,len(weights)). Zero-weight entries are only
// picked by an explicit replay index.
func (t *Tape) Choose(weights []int) int {
	n := len(weights)
	idx := 0
	if t.seeded {
		if t.Limit > 0 && len(t.Rec) >= t.Limit {
			idx = 0
		} else {
			total := 0
			for _, w := range weights {
				total += w
			}
			if total > 0 {
				r := int(t.next() % uint64(total))
				for i, w := range weights {
					if r < w {
						idx = i
						break
					}
					r -= w
				}
			}
		}
	} else {
		if t.pos < len(t.replay) {
			idx = int(t.replay[t.pos]) % n
		}
		t.pos++
	}
	t.Rec = append(t.Rec, uint16(idx))
	return idx
}

// Rand is a plain splitmix64 PRNG for workload and fault-plan generation
// (expanded before the run into explicit lists).
type Rand struct{ state uint64 }

func NewRand(seed uint64) *Rand { return &Rand{state: seed} }

func (r *Rand) Uint64() uint64 {
	r.state += 0x9e3779b97f4a7c15
	z := r.state
	z = (z ^ (z >> 30)) * 0xbf58476d1ce4e5b9
	z = (z ^ (z >> 27)) * 0x94d049bb133111eb
	return z ^ (z >> 31)
}

func (r *Rand) Intn(n int) int {
	if n <= 0 {
		return 0
	}
	return int(r.Uint64() % uint64(n))
}

func (r *Rand) Bool(permil int) bool { return r.Intn(1000) < permil }

// Fork derives an independent generator.
func (r *Rand) Fork(label string) *Rand { return &Rand{state: hash64(r.Uint64(), label)} }
