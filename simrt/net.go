package simrt

import (
	"context"
	"errors"
	"fmt"
	"io"
	"net"
	"sort"
	"syscall"
	"time"
)

// Net is the simulated transport: reliable ordered byte streams whose delivery
// is decided frame by frame by the scheduler. One Write is one frame (the
// JSON-RPC codec issues exactly one Write per message).
type Net struct {
	s         *Sim
	listeners map[string]*Listener
	links     map[string]*Link
	order     []string
	dialCount map[string]int
	refuse    map[string]int

	// Tap observes every frame when it is sent ("send") and when its last
	// byte is delivered ("dlv"). dir 0 is dialer->acceptor, 1 the reverse.
	Tap func(link *Link, dir int, phase string, idx int, frame []byte)
	// OnDial observes every dial attempt (after refusal decisions).
	OnDial func(addr string, link *Link, err error)
	// BeforeDeliver lets the fault plan act on the frame about to be
	// delivered: return n<0 to deliver normally, n>=0 to deliver only the
	// first n bytes and then cut the link.
	BeforeDeliver func(link *Link, dir int, idx int, frame []byte) int
}

func newNet(s *Sim) *Net {
	return &Net{s: s, listeners: map[string]*Listener{}, links: map[string]*Link{}, dialCount: map[string]int{}, refuse: map[string]int{}}
}

// Link is one connection.
type Link struct {
	Name   string
	Addr   string
	Dialer string // logical id of the dialing goroutine
	net    *Net
	pipes  [2]*pipe // 0: dialer->acceptor, 1: acceptor->dialer
	ends   [2]*Conn // 0: dialer side, 1: acceptor side
	cut    bool
	eof    bool // the cut looks like an orderly close (EOF) to the readers instead of a reset
	Raw    *RawConn
}

type pipe struct {
	q         [][]byte
	partial   int
	eofQueued bool
	buf       []byte
	closed    bool // reader sees EOF once buf is drained
	rdch      chan struct{}
	stalled   bool
	blackhole bool
	sent      int
	delivered int
	sink      func([]byte)
}

// Conn is one end of a Link.
type Conn struct {
	link        *Link
	side        int // 0 dialer, 1 acceptor
	localClosed bool
}

type addr string

func (a addr) Network() string { return "sim" }
func (a addr) String() string  { return string(a) }

func (c *Conn) in() *pipe  { return c.link.pipes[1-c.side] }
func (c *Conn) out() *pipe { return c.link.pipes[c.side] }

func (c *Conn) Read(p []byte) (int, error) {
	in := c.in()
	for {
		mu.Lock()
		if c.localClosed {
			mu.Unlock()
			return 0, net.ErrClosed
		}
		if len(in.buf) > 0 {
			n := copy(p, in.buf)
			in.buf = in.buf[n:]
			mu.Unlock()
			return n, nil
		}
		if in.closed {
			mu.Unlock()
			if c.link.cut && !c.link.eof {
				return 0, syscall.ECONNRESET
			}
			return 0, io.EOF
		}
		mu.Unlock()
		<-in.rdch
	}
}

func (c *Conn) Write(p []byte) (int, error) {
	mu.Lock()
	if c.localClosed {
		mu.Unlock()
		return 0, net.ErrClosed
	}
	if c.link.cut {
		mu.Unlock()
		return 0, syscall.EPIPE
	}
	out := c.out()
	if out.eofQueued {
		mu.Unlock()
		return 0, syscall.EPIPE
	}
	f := append([]byte(nil), p...)
	idx := out.sent
	out.sent++
	if !out.blackhole {
		out.q = append(out.q, f)
	}
	tap := c.link.net.Tap
	mu.Unlock()
	if tap != nil {
		tap(c.link, c.side, "send", idx, f)
	}
	return len(p), nil
}

func (c *Conn) Close() error {
	mu.Lock()
	if c.localClosed {
		mu.Unlock()
		return net.ErrClosed
	}
	c.localClosed = true
	c.out().eofQueued = true
	in := c.in()
	mu.Unlock()
	wake(in)
	return nil
}

func wake(p *pipe) {
	select {
	case p.rdch <- struct{}{}:
	default:
	}
}

func (c *Conn) LocalAddr() net.Addr                { return addr(c.link.Name + ":" + []string{"c", "s"}[c.side]) }
func (c *Conn) RemoteAddr() net.Addr               { return addr(c.link.Name + ":" + []string{"s", "c"}[c.side]) }
func (c *Conn) SetDeadline(t time.Time) error      { return nil }
func (c *Conn) SetReadDeadline(t time.Time) error  { return nil }
func (c *Conn) SetWriteDeadline(t time.Time) error { return nil }

// Listener is a simulated listening socket.
type Listener struct {
	net    *Net
	addr   string
	ch     chan *Conn
	closed bool
	done   chan struct{}
	// raw, if set, makes this a listener owned by harness code on the simulator
	// goroutine: it is told about each new connection and returns the sink that
	// receives the dialer's frames (nil frame = EOF).
	raw func(rc *RawConn) func(frame []byte)
}

// ListenRaw registers a listener whose acceptor side is driven by harness code
// (a stub server): no goroutines, no codec.
func (n *Net) ListenRaw(address string, onConn func(rc *RawConn) func(frame []byte)) {
	mu.Lock()
	defer mu.Unlock()
	n.listeners[address] = &Listener{net: n, addr: address, ch: make(chan *Conn, 1), done: make(chan struct{}), raw: onConn}
}

// Listen replaces net.Listen in the instrumented copy.
func Listen(network, address string) (net.Listener, error) {
	s := cur.Load()
	if s == nil {
		return nil, errors.New("simrt: Listen outside a simulation")
	}
	mu.Lock()
	defer mu.Unlock()
	if l, ok := s.Net.listeners[address]; ok && !l.closed {
		return nil, fmt.Errorf("listen %s %s: %w", network, address, syscall.EADDRINUSE)
	}
	l := &Listener{net: s.Net, addr: address, ch: make(chan *Conn, 1024), done: make(chan struct{})}
	s.Net.listeners[address] = l
	return l, nil
}

func (l *Listener) Accept() (net.Conn, error) {
	select {
	case c := <-l.ch:
		return c, nil
	case <-l.done:
		return nil, net.ErrClosed
	}
}

func (l *Listener) Close() error {
	mu.Lock()
	defer mu.Unlock()
	if l.closed {
		return net.ErrClosed
	}
	l.closed = true
	close(l.done)
	return nil
}

func (l *Listener) Addr() net.Addr { return addr(l.addr) }

// DialContext replaces (*net.Dialer).DialContext and (*tls.Dialer).DialContext.
func DialContext(dialer any, ctx context.Context, network, address string) (net.Conn, error) {
	s := cur.Load()
	if s == nil {
		return nil, errors.New("simrt: Dial outside a simulation")
	}
	if err := ctx.Err(); err != nil {
		return nil, err
	}
	l, err := s.Net.dial(address, nil)
	if err != nil {
		return nil, err
	}
	return l.ends[0], nil
}

func (n *Net) dial(address string, sink func([]byte)) (*Link, error) {
	g, _ := self()
	mu.Lock()
	var err error
	var link *Link
	var rawAcc func(rc *RawConn) func(frame []byte)
	l, ok := n.listeners[address]
	switch {
	case n.refuse[address] > 0:
		n.refuse[address]--
		err = &net.OpError{Op: "dial", Net: "sim", Addr: addr(address), Err: syscall.ECONNREFUSED}
		n.s.Probe["fault_refuse"]++
	case !ok || l.closed:
		err = &net.OpError{Op: "dial", Net: "sim", Addr: addr(address), Err: syscall.ECONNREFUSED}
	default:
		k := n.dialCount[address]
		n.dialCount[address]++
		link = &Link{Name: fmt.Sprintf("%s#%d", address, k), Addr: address, net: n}
		if g != nil {
			link.Dialer = g.ID
		}
		for i := range link.pipes {
			link.pipes[i] = &pipe{rdch: make(chan struct{}, 1)}
		}
		link.pipes[1].sink = sink
		link.ends[0] = &Conn{link: link, side: 0}
		link.ends[1] = &Conn{link: link, side: 1}
		n.links[link.Name] = link
		n.order = append(n.order, link.Name)
		if l.raw != nil {
			rawAcc = l.raw
		} else {
			l.ch <- link.ends[1]
		}
	}
	od := n.OnDial
	mu.Unlock()
	if rawAcc != nil {
		rc := &RawConn{Link: link, acceptor: true}
		link.Raw = rc
		snk := rawAcc(rc)
		mu.Lock()
		link.pipes[0].sink = snk
		mu.Unlock()
	}
	if od != nil {
		od(address, link, err)
	}
	return link, err
}

// RawConn is the dialer side of a link driven directly by harness code on the
// simulator goroutine: no goroutines, no codec. Frames from the acceptor are
// handed to the sink when the scheduler delivers them (nil means EOF).
type RawConn struct {
	Link     *Link
	acceptor bool
}

// DialRaw opens a connection for a raw peer.
func (n *Net) DialRaw(address string, sink func(frame []byte)) (*RawConn, error) {
	l, err := n.dial(address, sink)
	if err != nil {
		return nil, err
	}
	rc := &RawConn{Link: l}
	l.Raw = rc
	return rc, nil
}

// Send queues one frame towards the acceptor.
func (r *RawConn) end() *Conn {
	if r.acceptor {
		return r.Link.ends[1]
	}
	return r.Link.ends[0]
}

func (r *RawConn) Send(frame []byte) error {
	_, err := r.end().Write(frame)
	return err
}

func (r *RawConn) Close() { _ = r.end().Close() }

// ---- scheduler side -----------------------------------------------------------

func (n *Net) actions() []Action {
	mu.Lock()
	defer mu.Unlock()
	var acts []Action
	names := append([]string(nil), n.order...)
	sort.Strings(names)
	for _, name := range names {
		l := n.links[name]
		if l.cut {
			continue
		}
		for d := 0; d < 2; d++ {
			p := l.pipes[d]
			if p.stalled || p.closed {
				continue
			}
			if len(p.q) == 0 && !p.eofQueued {
				continue
			}
			l, d := l, d
			acts = append(acts, Action{Key: fmt.Sprintf("dlv:%s:%s", l.Name, []string{"cs", "sc"}[d]), Kind: "dlv", Weight: 30, Do: func() { n.deliver(l, d) }})
		}
	}
	return acts
}

// InFlight reports the number of frames (and pending EOFs) not yet delivered
// on links that can still deliver.
func (n *Net) InFlight() int {
	mu.Lock()
	defer mu.Unlock()
	c := 0
	for _, l := range n.links {
		if l.cut {
			continue
		}
		for _, p := range l.pipes {
			if p.closed || p.stalled {
				continue
			}
			c += len(p.q)
			if p.eofQueued {
				c++
			}
		}
	}
	return c
}

func (n *Net) deliver(l *Link, d int) {
	mu.Lock()
	p := l.pipes[d]
	if len(p.q) == 0 {
		if p.eofQueued {
			p.closed = true
			p.eofQueued = false
			sink := p.sink
			mu.Unlock()
			if sink != nil {
				sink(nil)
			} else {
				wake(p)
			}
			return
		}
		mu.Unlock()
		return
	}
	f := p.q[0]
	idx := p.delivered
	bd := n.BeforeDeliver
	mu.Unlock()
	tear := -1
	if bd != nil && p.partial == 0 {
		tear = bd(l, d, idx, f)
	}
	mu.Lock()
	if l.cut { // the fault plan cut the link from inside BeforeDeliver
		mu.Unlock()
		return
	}
	if tear >= 0 {
		if tear > len(f) {
			tear = len(f)
		}
		if p.sink == nil {
			p.buf = append(p.buf, f[:tear]...)
		}
		mu.Unlock()
		n.s.Probe["fault_torn_frame"]++
		l.Cut()
		return
	}
	rest := f[p.partial:]
	chunk := rest
	if mf := n.s.Cfg.MaxFragment; mf > 0 && p.sink == nil && len(rest) > mf {
		// deterministic fragment size in [1, mf]
		h := hash64(n.s.Cfg.Seed, "frag", l.Name, fmt.Sprint(d, idx, p.partial))
		chunk = rest[:1+int(h%uint64(mf))]
	}
	done := len(chunk) == len(rest)
	if p.sink == nil {
		p.buf = append(p.buf, chunk...)
	}
	if done {
		p.q = p.q[1:]
		p.partial = 0
		p.delivered++
	} else {
		p.partial += len(chunk)
		n.s.Probe["fragmented_delivery"]++
	}
	sink := p.sink
	tap := n.Tap
	mu.Unlock()
	if done && tap != nil {
		tap(l, d, "dlv", idx, f)
	}
	if sink != nil {
		sink(f)
	} else {
		wake(p)
	}
}

// Cut kills the link in both directions at once (reset): in-flight frames are
// lost, both readers see an error, writes fail.
func (l *Link) Cut() {
	mu.Lock()
	if l.cut {
		mu.Unlock()
		return
	}
	l.cut = true
	var sinks []func([]byte)
	for _, p := range l.pipes {
		p.q = nil
		p.eofQueued = false
		p.closed = true
		if p.sink != nil {
			sinks = append(sinks, p.sink)
		}
	}
	mu.Unlock()
	for _, p := range l.pipes {
		wake(p)
	}
	for _, s := range sinks {
		s(nil)
	}
}

// CutEOF is Cut as seen through a middlebox that closes both sides in an orderly
// way: in-flight frames are lost and both readers see EOF (not a reset).
func (l *Link) CutEOF() {
	mu.Lock()
	l.eof = true
	mu.Unlock()
	l.Cut()
}

// IsCut reports whether the link was cut or fully closed.
func (l *Link) IsCut() bool {
	mu.Lock()
	defer mu.Unlock()
	return l.cut
}

// Closed reports whether either side closed or the link was cut.
func (l *Link) Closed() bool {
	mu.Lock()
	defer mu.Unlock()
	return l.cut || l.ends[0].localClosed || l.ends[1].localClosed || l.pipes[0].closed || l.pipes[1].closed
}

// Stall stops (or resumes) delivery in one direction; frames keep queueing.
func (l *Link) Stall(dir int, on bool) {
	mu.Lock()
	l.pipes[dir].stalled = on
	mu.Unlock()
}

// Blackhole silently drops everything sent in one direction from now on
// (half-open connection).
func (l *Link) Blackhole(dir int) {
	mu.Lock()
	l.pipes[dir].blackhole = true
	l.pipes[dir].q = nil
	mu.Unlock()
}

// Sent and Delivered report per-direction frame counters.
func (l *Link) Sent(dir int) int {
	mu.Lock()
	defer mu.Unlock()
	return l.pipes[dir].sent
}
func (l *Link) Delivered(dir int) int {
	mu.Lock()
	defer mu.Unlock()
	return l.pipes[dir].delivered
}

// Refuse makes the next k dials to address fail.
func (n *Net) Refuse(address string, k int) {
	mu.Lock()
	n.refuse[address] = k
	mu.Unlock()
}

// Links returns the links in creation order.
func (n *Net) Links() []*Link {
	mu.Lock()
	defer mu.Unlock()
	out := make([]*Link, 0, len(n.order))
	for _, name := range n.order {
		out = append(out, n.links[name])
	}
	return out
}

// CutAll cuts every live link of an endpoint (server crash).
func (n *Net) CutAll(address string) int {
	c := 0
	for _, l := range n.Links() {
		if l.Addr == address && !l.IsCut() {
			l.Cut()
			c++
		}
	}
	return c
}
