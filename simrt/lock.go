package simrt

import (
	"fmt"
	"sort"
	"strings"
	"time"
)

// RWMutex replaces sync.RWMutex in the instrumented copy. Blocking on it is a
// channel receive (durable for testing/synctest), every acquisition is a
// scheduling point, and the simulator decides who gets a contended lock. It
// models Go's writer preference: once a writer is queued, new readers queue
// behind it; when a writer unlocks, all queued readers are admitted.
type RWMutex struct {
	wHeld   bool
	wBy     *G
	readers int
	rBy     map[*G]int
	pendW   []*waiter
	waitR   []*waiter
	direct  int // direct (non-simulated) holders, diagnostics only
}

// Mutex replaces sync.Mutex.
type Mutex struct{ rw RWMutex }

type waiter struct {
	m       *RWMutex
	g       *G
	write   bool
	granted bool
}

type wouldBlock struct{ what string }

func (m *Mutex) Lock()         { m.rw.Lock() }
func (m *Mutex) Unlock()       { m.rw.Unlock() }
func (m *Mutex) TryLock() bool { return m.rw.TryLock() }

func (m *RWMutex) holderID() string {
	var ids []string
	if m.wHeld {
		if m.wBy != nil {
			ids = append(ids, "W:"+m.wBy.ID)
		} else {
			ids = append(ids, "W:direct")
		}
	}
	for g, n := range m.rBy {
		if n > 0 {
			ids = append(ids, fmt.Sprintf("R:%s", g.ID))
		}
	}
	sort.Strings(ids)
	return strings.Join(ids, ",")
}

// grant hands the lock to a waiter. mu must be held.
func (m *RWMutex) grant(w *waiter) {
	if w.write {
		if m.wHeld || m.readers != 0 {
			panic("simrt: write grant on busy lock")
		}
		m.wHeld = true
		m.wBy = w.g
		w.g.hold(m, true)
		for i, x := range m.pendW {
			if x == w {
				m.pendW = append(m.pendW[:i], m.pendW[i+1:]...)
				break
			}
		}
		return
	}
	// readers were already counted at the writer's Unlock
	if !w.granted {
		panic("simrt: read grant without admission")
	}
}

func (m *RWMutex) noteR(g *G, d int) {
	if g == nil {
		return
	}
	if m.rBy == nil {
		m.rBy = map[*G]int{}
	}
	m.rBy[g] += d
	if m.rBy[g] <= 0 {
		delete(m.rBy, g)
	}
}

func (m *RWMutex) Lock() {
	g, s := self()
	if g == nil || g.unmanaged {
		m.lockDirect(g, s, true)
		return
	}
	if g.atomic == 0 {
		s.park(g, nil, "lock", true)
	}
	mu.Lock()
	if !m.wHeld && m.readers == 0 && len(m.pendW) == 0 {
		m.wHeld = true
		m.wBy = g
		g.hold(m, true)
		mu.Unlock()
		return
	}
	w := &waiter{m: m, g: g, write: true}
	m.pendW = append(m.pendW, w)
	mu.Unlock()
	s.park(g, w, "wlock", true)
}

func (m *RWMutex) RLock() {
	g, s := self()
	if g == nil || g.unmanaged {
		m.lockDirect(g, s, false)
		return
	}
	if g.atomic == 0 {
		s.park(g, nil, "rlock", true)
	}
	mu.Lock()
	if !m.wHeld && len(m.pendW) == 0 {
		m.readers++
		m.noteR(g, 1)
		g.hold(m, false)
		mu.Unlock()
		return
	}
	w := &waiter{m: m, g: g}
	m.waitR = append(m.waitR, w)
	mu.Unlock()
	s.park(g, w, "rwait", true)
}

func (m *RWMutex) Unlock() {
	g, s := self()
	mu.Lock()
	if !m.wHeld {
		mu.Unlock()
		panic("simrt: unlock of unlocked RWMutex (sync: unlock of unlocked mutex)")
	}
	m.wBy.release(m, true)
	m.wHeld = false
	m.wBy = nil
	// admit every queued reader
	for _, w := range m.waitR {
		w.granted = true
		m.readers++
		m.noteR(w.g, 1)
		w.g.hold(m, false)
	}
	m.waitR = nil
	if g != nil && g.unmanaged && s != nil {
		s.tryRelease(m, true)
	}
	mu.Unlock()
}

func (m *RWMutex) RUnlock() {
	g, s := self()
	mu.Lock()
	if m.readers <= 0 {
		mu.Unlock()
		panic("simrt: RUnlock of unlocked RWMutex (sync: RUnlock of unlocked RWMutex)")
	}
	m.readers--
	if g != nil && !g.unmanaged {
		m.noteR(g, -1)
		g.release(m, false)
	}
	if g != nil && g.unmanaged && s != nil {
		s.tryRelease(m, false)
	}
	mu.Unlock()
}

func (m *RWMutex) TryLock() bool {
	mu.Lock()
	defer mu.Unlock()
	if !m.wHeld && m.readers == 0 && len(m.pendW) == 0 {
		g, _ := selfNoAdopt()
		m.wHeld = true
		m.wBy = g
		if g != nil && !g.unmanaged {
			g.hold(m, true)
		}
		return true
	}
	return false
}

func (m *RWMutex) TryRLock() bool {
	mu.Lock()
	defer mu.Unlock()
	if !m.wHeld && len(m.pendW) == 0 {
		g, _ := selfNoAdopt()
		m.readers++
		m.noteR(g, 1)
		if g != nil && !g.unmanaged {
			g.hold(m, false)
		}
		return true
	}
	return false
}

// RLocker mirrors sync.RWMutex.RLocker.
func (m *RWMutex) RLocker() interface {
	Lock()
	Unlock()
} {
	return (*rlocker)(m)
}

type rlocker RWMutex

func (r *rlocker) Lock()   { (*RWMutex)(r).RLock() }
func (r *rlocker) Unlock() { (*RWMutex)(r).RUnlock() }

func selfNoAdopt() (*G, *Sim) {
	id := goid()
	if v, ok := allG.Load(id); ok {
		g := v.(*G)
		return g, g.sim
	}
	return nil, nil
}

// lockDirect is the non-scheduling path: no simulator, or the simulator's own
// goroutine evaluating an oracle. The simulator goroutine must never wait.
func (m *RWMutex) lockDirect(g *G, s *Sim, write bool) {
	for {
		mu.Lock()
		free := !m.wHeld && (!write || m.readers == 0)
		if free {
			if write {
				m.wHeld = true
				m.wBy = nil
			} else {
				m.readers++
			}
			if g != nil && g.unmanaged && s != nil {
				s.tryHeld = append(s.tryHeld, tryLock{m, write})
			}
			mu.Unlock()
			return
		}
		holder := m.holderID()
		mu.Unlock()
		if g != nil && g.unmanaged {
			panic(wouldBlock{what: "lock held by " + holder})
		}
		time.Sleep(50 * time.Microsecond)
	}
}

// tryRelease drops the newest matching entry from the simulator goroutine's
// held list. mu must be held.
func (s *Sim) tryRelease(m *RWMutex, write bool) {
	for i := len(s.tryHeld) - 1; i >= 0; i-- {
		if s.tryHeld[i].m == m && s.tryHeld[i].write == write {
			s.tryHeld = append(s.tryHeld[:i], s.tryHeld[i+1:]...)
			return
		}
	}
}

// Try runs f on the simulator's goroutine. If f would have to wait for a lock
// held by a parked goroutine, every lock f acquired is released and Try
// returns false with a description.
func (s *Sim) Try(f func()) (ok bool, why string) {
	defer func() {
		if r := recover(); r != nil {
			wb, is := r.(wouldBlock)
			if !is {
				panic(r)
			}
			mu.Lock()
			for _, h := range s.tryHeld {
				if h.write {
					h.m.wHeld = false
					h.m.wBy = nil
				} else {
					h.m.readers--
				}
			}
			s.tryHeld = nil
			mu.Unlock()
			ok, why = false, wb.what
		}
	}()
	f()
	return true, ""
}
