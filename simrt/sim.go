// Package simrt is the run-time half of the deterministic simulator used by
// /verif. An instrumented scratch copy of libovsdb (see /verif/simify) links
// against it instead of sync.Mutex/RWMutex, range-over-map, net.Dial/Listen
// and bare `go` statements. The harness drives one Sim per run from inside a
// testing/synctest bubble.
//
// Outside a run (no live Sim) every primitive degrades to a plain, correct,
// non-scheduling implementation.
package simrt

import (
	"bytes"
	"fmt"
	"hash/fnv"
	"runtime"
	"sort"
	"strconv"
	"strings"
	"sync"
	"sync/atomic"
	"time"
)

// mu protects all simulator and lock state. It is a real mutex: critical
// sections are short and never block.
var mu sync.Mutex

// cur is the live simulator, if any.
var cur atomic.Pointer[Sim]

// allG maps Go goroutine ids to their simulator identity (across runs, so a
// goroutine leaked by a finished run is recognised and stays frozen).
var allG sync.Map // int64 -> *G

// Config are the per-run knobs that live inside simrt.
type Config struct {
	Seed        uint64
	YieldPermil int  // soft yields park with probability YieldPermil/1000
	PermuteMaps bool // permute map iteration order (else canonical order)
	Stick       int  // weight of "continue the goroutine that ran last"
	MaxFragment int  // 0: whole frames; n>0: deliver frames in fragments of up to n bytes
	// Slow: goroutines whose logical id contains one of these substrings are
	// scheduled ~30x less often than the others (a slow party: deep reorderings
	// that uniform random choice practically never produces).
	Slow []string
}

// G is the simulator's view of one goroutine.
type G struct {
	ID   string
	goid int64
	sim  *Sim

	ch     chan struct{}
	parked bool
	wait   *waiter // non-nil: parked waiting for a lock grant
	why    string  // informational
	hard   bool

	ctr             uint64 // soft yield counter
	loopCtr         uint64 // map iteration counter
	uuidCtr         uint64
	selCtr          uint64
	spawnCtr        map[string]int
	kids            map[string]int // fallback ordinal for children discovered through stacks
	unmanaged       bool
	atomic          int // >0: yields are skipped (harness instrumentation running on this goroutine)
	steps           int
	sinceParkYields int        // soft yields passed without parking since the last park
	held            []heldLock // simulated mutexes this goroutine holds (lockset tracking)
}

// TickEvery: a goroutine that passes this many soft yields without parking is
// parked anyway, so that a loop that never blocks cannot starve the simulator.
const TickEvery = 3000

// Heartbeat is incremented at every scheduling step (watchdog food).
var Heartbeat atomic.Int64

// Action is one thing the simulator may do next.
type Action struct {
	Key    string // stable identity, e.g. "run:<gid>", "dlv:<link>:<dir>", "op:<actor>"
	Kind   string // run | dlv | op | time | fault
	Weight int
	Do     func()
}

// Stats are reach counters.
type Stats struct {
	Steps         int
	ChoicePoints  int // steps with >= 2 enabled actions
	Runs          int
	Delivers      int
	TimeSteps     int
	SoftParks     int
	HardParks     int
	LockWaits     int // a goroutine had to queue for a lock
	LockContend   int // a choice point at which >= 2 goroutines were waiting for the same lock
	MapPerms      int
	UnknownParent int
	PtrRace       int
	Goroutines    int
}

// Sim is one simulated execution.
type Sim struct {
	Cfg   Config
	Tape  *Tape
	Net   *Net
	Stats Stats

	root    *G
	gs      map[int64]*G
	byID    map[string]*G
	wake    chan struct{}
	lastRun string
	// LastWasTick: the goroutine released last had been parked by the tick (it
	// had run TickEvery soft yields without blocking).
	LastWasTick bool
	dead        atomic.Bool

	// Extra is called every step for scenario-level actions (ops, faults,
	// explicit time steps). May be nil.
	Extra func() []Action

	// Trace receives every chosen action key (write-ahead, before executing).
	Trace func(step int, key string, nEnabled int)

	sig   uint64 // running signature of (kind, actor) at choice points
	Start time.Time

	ptrSeq  map[uintptr]int
	ptrNext int

	tryDepth int
	tryHeld  []tryLock

	fallbackCtr map[string]int
	simUUID     uint64
	Probe       map[string]int

	// TrackMaps turns on lockset tracking of shared maps (race.go).
	TrackMaps   bool
	maps        map[uintptr]*mapState
	MapRaces    []MapRace
	MapAccesses int
}

type tryLock struct {
	m     *RWMutex
	write bool
}

// NewSim creates a simulator and makes it the live one. Must be called from
// the goroutine that will drive it (the synctest bubble's root goroutine).
func NewSim(cfg Config, tape *Tape) *Sim {
	s := &Sim{
		Cfg:         cfg,
		Tape:        tape,
		gs:          map[int64]*G{},
		byID:        map[string]*G{},
		wake:        make(chan struct{}, 1),
		ptrSeq:      map[uintptr]int{},
		fallbackCtr: map[string]int{},
		Probe:       map[string]int{},
		Start:       time.Now(),
	}
	if s.Cfg.Stick <= 0 {
		s.Cfg.Stick = 1
	}
	s.Net = newNet(s)
	root := &G{ID: "sim", goid: goid(), sim: s, unmanaged: true, ch: make(chan struct{}, 1)}
	s.root = root
	s.gs[root.goid] = root
	allG.Store(root.goid, root)
	cur.Store(s)
	return s
}

// Stop freezes the simulation: goroutines still parked stay parked forever.
func (s *Sim) Stop() {
	s.dead.Store(true)
	cur.CompareAndSwap(s, nil)
	allG.Delete(s.root.goid)
}

// Live returns the live simulator or nil.
func Live() *Sim { return cur.Load() }

func goid() int64 {
	var buf [64]byte
	n := runtime.Stack(buf[:], false)
	// "goroutine 123 [running]:..."
	b := buf[10:n]
	i := bytes.IndexByte(b, ' ')
	if i < 0 {
		return -1
	}
	id, _ := strconv.ParseInt(string(b[:i]), 10, 64)
	return id
}

// self returns the calling goroutine's G and its simulator. (nil, nil) means
// "no simulation": behave as a plain primitive. A goroutine that belongs to a
// finished simulation never returns from here: it is frozen for good.
func self() (g *G, s *Sim) {
	id := goid()
	if v, ok := allG.Load(id); ok {
		g = v.(*G)
		if g.sim.dead.Load() {
			freeze()
		}
		return g, g.sim
	}
	s = cur.Load()
	if s == nil {
		return nil, nil
	}
	// unknown goroutine touching instrumented code during a live run:
	// derive an identity from its creation stack.
	g = s.adopt(id)
	return g, s
}

func (s *Sim) adopt(id int64) *G {
	buf := make([]byte, 8192)
	n := runtime.Stack(buf, false)
	st := string(buf[:n])
	entry, creator, parent := parseCreation(st)
	mu.Lock()
	defer mu.Unlock()
	var pid string
	if pg, ok := s.gs[parent]; ok {
		pid = pg.ID
		if pg.kids == nil {
			pg.kids = map[string]int{}
		}
		k := entry
		ord := pg.kids[k]
		pg.kids[k]++
		return s.register(id, fmt.Sprintf("%s/%s#%d", pid, short(entry), ord))
	}
	s.Stats.UnknownParent++
	k := short(entry) + "<" + short(creator)
	ord := s.fallbackCtr[k]
	s.fallbackCtr[k]++
	return s.register(id, fmt.Sprintf("?%s#%d", k, ord))
}

// register must be called with mu held.
func (s *Sim) register(id int64, name string) *G {
	if old, ok := s.byID[name]; ok && old.goid != id {
		// keep names unique
		for i := 2; ; i++ {
			n2 := fmt.Sprintf("%s~%d", name, i)
			if _, ok := s.byID[n2]; !ok {
				name = n2
				break
			}
		}
	}
	g := &G{ID: name, goid: id, sim: s, ch: make(chan struct{}, 1)}
	s.gs[id] = g
	s.byID[name] = g
	allG.Store(id, g)
	s.Stats.Goroutines++
	return g
}

func short(fn string) string {
	if i := strings.LastIndex(fn, "/"); i >= 0 {
		fn = fn[i+1:]
	}
	fn = strings.ReplaceAll(fn, "(*", "")
	fn = strings.ReplaceAll(fn, ")", "")
	return fn
}

// parseCreation extracts the entry function, the creating function and the
// creating goroutine from a single-goroutine stack dump.
func parseCreation(st string) (entry, creator string, parent int64) {
	lines := strings.Split(strings.TrimRight(st, "\n"), "\n")
	parent = -1
	ci := -1
	for i := len(lines) - 1; i >= 0; i-- {
		if strings.HasPrefix(lines[i], "created by ") {
			ci = i
			break
		}
	}
	if ci >= 0 {
		l := strings.TrimPrefix(lines[ci], "created by ")
		if j := strings.Index(l, " in goroutine "); j >= 0 {
			creator = l[:j]
			parent, _ = strconv.ParseInt(strings.TrimSpace(l[j+len(" in goroutine "):]), 10, 64)
		} else {
			creator = l
		}
		if ci >= 2 {
			entry = lines[ci-2]
		}
	} else if len(lines) >= 2 {
		entry = lines[len(lines)-2]
	}
	if j := strings.LastIndex(entry, "("); j >= 0 {
		entry = entry[:j]
	}
	return
}

func hash64(seed uint64, parts ...string) uint64 {
	h := fnv.New64a()
	var b [8]byte
	for i := 0; i < 8; i++ {
		b[i] = byte(seed >> (8 * i))
	}
	h.Write(b[:])
	for _, p := range parts {
		h.Write([]byte(p))
		h.Write([]byte{0})
	}
	x := h.Sum64()
	// final avalanche (fnv is weak in the high bits)
	x ^= x >> 33
	x *= 0xff51afd7ed558ccd
	x ^= x >> 33
	x *= 0xc4ceb9fe1a85ec53
	x ^= x >> 33
	return x
}

// ---- yields -----------------------------------------------------------------

// Yield is a soft scheduling point inserted by simify at function and loop
// body starts. Whether it parks is a pure function of (seed, goroutine, count).
func Yield(site int) {
	g, s := self()
	if g == nil || g.unmanaged || g.atomic > 0 {
		return
	}
	g.ctr++
	g.sinceParkYields++
	if g.sinceParkYields >= TickEvery {
		s.park(g, nil, "tick", false)
		return
	}
	if s.Cfg.YieldPermil <= 0 {
		return
	}
	if s.Cfg.YieldPermil < 1000 {
		h := hash64(s.Cfg.Seed, "y", g.ID, strconv.FormatUint(g.ctr, 10))
		if int(h%1000) >= s.Cfg.YieldPermil {
			return
		}
	}
	s.park(g, nil, "yield", false)
}

// YieldHard always parks (inserted after channel operations, used by the
// harness's own actors).
func YieldHard(site int) {
	g, s := self()
	if g == nil || g.unmanaged || g.atomic > 0 {
		return
	}
	s.park(g, nil, "hard", true)
}

func freeze() {
	select {}
}

// park blocks the calling goroutine until the simulator releases it.
func (s *Sim) park(g *G, w *waiter, why string, hard bool) {
	if s.dead.Load() {
		freeze()
	}
	mu.Lock()
	g.sinceParkYields = 0
	g.parked = true
	g.wait = w
	g.why = why
	g.hard = hard
	if w != nil {
		s.Stats.LockWaits++
	} else if hard {
		s.Stats.HardParks++
	} else {
		s.Stats.SoftParks++
	}
	mu.Unlock()
	select {
	case s.wake <- struct{}{}:
	default:
	}
	<-g.ch
}

// ---- spawn ------------------------------------------------------------------

// Ticket carries a deterministic identity from a `go` statement to the
// goroutine it creates.
type Ticket struct {
	id  string
	sim *Sim
}

// Spawn is called by the parent right before it creates a goroutine.
func Spawn(site string) Ticket {
	g, s := self()
	if g == nil {
		return Ticket{}
	}
	mu.Lock()
	defer mu.Unlock()
	if g.spawnCtr == nil {
		g.spawnCtr = map[string]int{}
	}
	n := g.spawnCtr[site]
	g.spawnCtr[site]++
	return Ticket{id: fmt.Sprintf("%s/%s#%d", g.ID, site, n), sim: s}
}

// Named returns a ticket with an explicit identity (harness actors).
func (s *Sim) Named(id string) Ticket { return Ticket{id: id, sim: s} }

func born(t Ticket) {
	if t.sim == nil {
		return
	}
	id := goid()
	mu.Lock()
	t.sim.register(id, t.id)
	mu.Unlock()
}

// Go0..Go2 replace `go f(args...)`: arguments are evaluated by the caller, as
// with a go statement.
func Go0(t Ticket, f func()) {
	go func() { born(t); YieldHard(0); f() }()
}
func Go1[A any](t Ticket, f func(A), a A) {
	go func() { born(t); YieldHard(0); f(a) }()
}
func Go2[A, B any](t Ticket, f func(A, B), a A, b B) {
	go func() { born(t); YieldHard(0); f(a, b) }()
}

// Go1R is Go1 for functions with one (discarded) result.
func Go1R[A, R any](t Ticket, f func(A) R, a A) {
	go func() { born(t); YieldHard(0); f(a) }()
}
func Go0R[R any](t Ticket, f func() R) {
	go func() { born(t); YieldHard(0); f() }()
}

// ---- step loop ---------------------------------------------------------------

// Enabled returns the currently enabled scheduler actions in canonical order.
// Must be called at quiescence (after synctest.Wait()).
func (s *Sim) enabled() []Action {
	var acts []Action
	mu.Lock()
	ids := make([]string, 0, len(s.byID))
	for id, g := range s.byID {
		if g.parked && s.grantable(g) {
			ids = append(ids, id)
		}
	}
	sort.Strings(ids)
	// lock contention probe
	seen := map[*RWMutex]int{}
	for _, id := range ids {
		if w := s.byID[id].wait; w != nil {
			seen[w.m]++
		}
	}
	for _, n := range seen {
		if n >= 2 {
			s.Stats.LockContend++
			break
		}
	}
	mu.Unlock()
	// default first: the goroutine that ran last
	w := func(id string, base int) int {
		for _, p := range s.Cfg.Slow {
			if p != "" && strings.Contains(id, p) {
				return 1
			}
		}
		return base
	}
	for _, id := range ids {
		if id == s.lastRun {
			id := id
			acts = append(acts, Action{Key: "run:" + id, Kind: "run", Weight: w(id, 30*s.Cfg.Stick), Do: func() { s.release(id) }})
		}
	}
	for _, id := range ids {
		if id != s.lastRun {
			id := id
			acts = append(acts, Action{Key: "run:" + id, Kind: "run", Weight: w(id, 30), Do: func() { s.release(id) }})
		}
	}
	acts = append(acts, s.Net.actions()...)
	if s.Extra != nil {
		acts = append(acts, s.Extra()...)
	}
	return acts
}

func (s *Sim) grantable(g *G) bool {
	w := g.wait
	if w == nil {
		return true
	}
	if w.write {
		return !w.m.wHeld && w.m.readers == 0
	}
	return w.granted
}

func (s *Sim) release(id string) {
	mu.Lock()
	g := s.byID[id]
	if g == nil || !g.parked {
		mu.Unlock()
		panic("simrt: release of goroutine that is not parked: " + id)
	}
	if w := g.wait; w != nil {
		w.m.grant(w)
		g.wait = nil
	}
	g.parked = false
	g.steps++
	s.lastRun = id
	s.LastWasTick = g.why == "tick"
	mu.Unlock()
	g.ch <- struct{}{}
}

// Step performs one scheduling step. wait must be synctest.Wait. It returns
// the key of the action taken, or "" if nothing at all is enabled (idle).
func (s *Sim) Step(wait func()) string {
	Heartbeat.Add(1)
	wait()
	acts := s.enabled()
	if len(acts) == 0 {
		return ""
	}
	idx := 0
	if len(acts) > 1 {
		s.Stats.ChoicePoints++
		ws := make([]int, len(acts))
		for i, a := range acts {
			ws[i] = a.Weight
			if ws[i] <= 0 {
				ws[i] = 0
			}
		}
		idx = s.Tape.Choose(ws)
	}
	a := acts[idx]
	if len(acts) > 1 {
		s.sig = hash64(s.sig, a.Kind, actorOf(a.Key))
	}
	s.Stats.Steps++
	switch a.Kind {
	case "run":
		s.Stats.Runs++
	case "dlv":
		s.Stats.Delivers++
	case "time":
		s.Stats.TimeSteps++
	}
	if s.Trace != nil {
		s.Trace(s.Stats.Steps, a.Key, len(acts))
	}
	a.Do()
	return a.Key
}

func actorOf(key string) string {
	if i := strings.Index(key, ":"); i >= 0 {
		key = key[i+1:]
	}
	if i := strings.Index(key, "/"); i >= 0 {
		key = key[:i]
	}
	return key
}

// Signature is the hash of the (kind, actor) sequence at choice points so far.
func (s *Sim) Signature() uint64 { return s.sig }

// Idle advances simulated time until some goroutine parks (i.e. until the next
// timer whose firing leads to instrumented activity) or max elapses.
func (s *Sim) Idle(max time.Duration) {
	select {
	case <-s.wake:
	default:
	}
	t := time.NewTimer(max)
	select {
	case <-s.wake:
		t.Stop()
	case <-t.C:
	}
}

// Sleep advances simulated time by exactly d (all timers due fire in order).
func (s *Sim) Sleep(d time.Duration) { time.Sleep(d) }

// Parked reports the parked goroutines and what they wait for (diagnostics).
func (s *Sim) Parked() []string {
	mu.Lock()
	defer mu.Unlock()
	var out []string
	for id, g := range s.byID {
		if g.parked {
			d := id + " [" + g.why
			if g.wait != nil {
				d += fmt.Sprintf(" lock=%p write=%v wHeld=%v by=%s readers=%d pendW=%d", g.wait.m, g.wait.write, g.wait.m.wHeld, g.wait.m.holderID(), g.wait.m.readers, len(g.wait.m.pendW))
			}
			out = append(out, d+"]")
		}
	}
	sort.Strings(out)
	return out
}

// Blocked reports goroutines parked on a lock that is not grantable.
func (s *Sim) Blocked() []string {
	mu.Lock()
	defer mu.Unlock()
	var out []string
	for id, g := range s.byID {
		if g.parked && !s.grantable(g) {
			out = append(out, fmt.Sprintf("%s waits %s-lock held by [%s]", id, map[bool]string{true: "write", false: "read"}[g.wait.write], g.wait.m.holderID()))
		}
	}
	sort.Strings(out)
	return out
}

// HasRunnable reports whether any goroutine is parked and grantable.
func (s *Sim) HasRunnable() bool {
	mu.Lock()
	defer mu.Unlock()
	for _, g := range s.byID {
		if g.parked && s.grantable(g) {
			return true
		}
	}
	return false
}

// SelfID returns the logical id of the calling goroutine ("" if unknown).
func SelfID() string {
	g, _ := self()
	if g == nil {
		return ""
	}
	return g.ID
}

// AllStacks dumps all goroutine stacks (diagnostics for liveness reports).
func AllStacks() string {
	buf := make([]byte, 1<<20)
	n := runtime.Stack(buf, true)
	return string(buf[:n])
}

// Atomic runs f without offering scheduling points on the calling goroutine
// (it still waits, through the scheduler, for a lock that is not free). Used
// by harness instrumentation that runs inside a simulated goroutine.
func Atomic(f func()) {
	g, _ := self()
	if g == nil {
		f()
		return
	}
	g.atomic++
	defer func() { g.atomic-- }()
	f()
}

// SelectFlip decides the priority order among the cases of a rewritten select
// (R7): a pure function of (seed, goroutine, per-goroutine count).
func SelectFlip(site string) bool {
	g, s := self()
	if g == nil || g.unmanaged || s == nil {
		return false
	}
	g.selCtr++
	return hash64(s.Cfg.Seed, "sel", g.ID, strconv.FormatUint(g.selCtr, 10))&1 == 1
}
