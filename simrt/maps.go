package simrt

import (
	"fmt"
	"reflect"
	"sort"
	"strconv"
)

// Entry is one element of a map iteration snapshot. KV performs a live lookup
// so that deletion during iteration keeps Go's semantics (a deleted entry is
// not produced) and the value seen is the current one.
type Entry[K comparable, V any] struct {
	m map[K]V
	k K
}

func (e Entry[K, V]) KV() (K, V, bool) {
	v, ok := e.m[e.k]
	return e.k, v, ok
}

func (e Entry[K, V]) K() (K, bool) {
	_, ok := e.m[e.k]
	return e.k, ok
}

type keyed[K comparable] struct {
	k K
	s string
	h uint64
}

// Entries replaces `range m` in the instrumented copy: keys are put in a
// canonical order and then permuted by a pure function of (seed, goroutine,
// per-goroutine loop count, key).
func Entries[M ~map[K]V, K comparable, V any](m M) []Entry[K, V] {
	n := len(m)
	if n == 0 {
		return nil
	}
	ks := make([]keyed[K], 0, n)
	newPtrs := 0
	for k := range m {
		s, isNew := keyString(k)
		if isNew {
			newPtrs++
		}
		ks = append(ks, keyed[K]{k: k, s: s})
	}
	if newPtrs >= 2 {
		// two pointers without a registered order met in one iteration: their
		// relative order is not owned by the simulator (must stay zero)
		if s := cur.Load(); s != nil {
			mu.Lock()
			s.Probe["ptr_order_race"]++
			mu.Unlock()
		}
	}
	if n > 1 {
		g, s := self()
		permute := s != nil && g != nil && !g.unmanaged && s.Cfg.PermuteMaps && !s.dead.Load()
		if permute {
			g.loopCtr++
			c := strconv.FormatUint(g.loopCtr, 10)
			for i := range ks {
				ks[i].h = hash64(s.Cfg.Seed, "m", g.ID, c, ks[i].s)
			}
			sort.Slice(ks, func(i, j int) bool {
				if ks[i].h != ks[j].h {
					return ks[i].h < ks[j].h
				}
				return ks[i].s < ks[j].s
			})
			mu.Lock()
			s.Stats.MapPerms++
			mu.Unlock()
		} else {
			sort.Slice(ks, func(i, j int) bool { return ks[i].s < ks[j].s })
		}
	}
	out := make([]Entry[K, V], n)
	for i := range ks {
		out[i] = Entry[K, V]{m: m, k: ks[i].k}
	}
	return out
}

func keyString(k any) (string, bool) {
	switch x := k.(type) {
	case string:
		return x, false
	case int:
		return strconv.Itoa(x), false
	}
	rv := reflect.ValueOf(k)
	switch rv.Kind() {
	case reflect.String:
		return rv.String(), false
	case reflect.Pointer, reflect.UnsafePointer, reflect.Chan, reflect.Func:
		n, isNew := ptrOrdinal(rv.Pointer())
		return "p" + strconv.Itoa(n), isNew
	}
	return fmt.Sprintf("%T|%v", k, k), false
}

// ptrOrdinal gives pointer-typed map keys a stable order: the order in which
// they were registered (RegisterPtr) or first seen.
func ptrOrdinal(p uintptr) (int, bool) {
	s := cur.Load()
	mu.Lock()
	defer mu.Unlock()
	if s == nil {
		return int(p), false
	}
	if n, ok := s.ptrSeq[p]; ok {
		return n, false
	}
	s.ptrNext++
	s.ptrSeq[p] = s.ptrNext
	return s.ptrNext, true
}

// RegisterPtr fixes the canonical order of a pointer used as a map key.
func (s *Sim) RegisterPtr(p any) {
	rv := reflect.ValueOf(p)
	mu.Lock()
	defer mu.Unlock()
	if _, ok := s.ptrSeq[rv.Pointer()]; ok {
		return
	}
	s.ptrNext++
	s.ptrSeq[rv.Pointer()] = s.ptrNext
}

// UUIDReader is an io.Reader for uuid.SetRand: the bytes are a pure function
// of (seed, goroutine, per-goroutine draw count).
type UUIDReader struct{}

func (UUIDReader) Read(p []byte) (int, error) {
	g, s := self()
	var seed uint64
	var id string
	var c uint64
	if s != nil {
		seed = s.Cfg.Seed
	}
	if g != nil {
		mu.Lock()
		g.uuidCtr++
		c = g.uuidCtr
		id = g.ID
		mu.Unlock()
	} else {
		mu.Lock()
		noSimUUID++
		c = noSimUUID
		id = "-"
		mu.Unlock()
	}
	for i := 0; i < len(p); i += 8 {
		h := hash64(seed, "u", id, strconv.FormatUint(c, 10), strconv.Itoa(i))
		for j := 0; j < 8 && i+j < len(p); j++ {
			p[i+j] = byte(h >> (8 * j))
		}
	}
	return len(p), nil
}

var noSimUUID uint64
