#!/bin/bash
# regenerate /verif/harness/schemas/ks*.ovsschema from KitchenSink (run after changing the schema)
set -e
export GOFLAGS=-mod=mod GOPROXY=off GOSUMDB=off GOTOOLCHAIN=local GOWORK=off
S=$(mktemp -d); rm -rf $S; mkdir -p $S/h
cp /verif/harness/schema.go /verif/harness/vals.go $S/h/ 2>/dev/null
cat > $S/h/go.mod <<EOM
module regen
go 1.21
require github.com/ovn-org/libovsdb v0.0.0
replace github.com/ovn-org/libovsdb => /repo
EOM
cp /repo/go.sum $S/h/
sed -i 's/^package harness/package main/; /libovsdb\/simrt/d; /simrt\./d' $S/h/*.go
cat > $S/h/main.go <<EOM
package main

import (
	"fmt"
	"os"
)

func main() {
	for v := 0; v < 3; v++ {
		if err := os.WriteFile(fmt.Sprintf("/verif/harness/schemas/ks%d.ovsschema", v), KitchenSink(v).JSON(), 0644); err != nil {
			panic(err)
		}
	}
}
EOM
(cd $S/h && go run .)
rm -rf $S
